#!/bin/bash
# usage: ./run.sh <ID> <quick|thorough>   |   ./run.sh replay <file>
# Rebuilds the harness against /repo's current working tree (content-hashed
# build cache), then runs the check. Never runs go with cwd inside /repo.
#
# Development aid (not used by the registered commands): VERIF_REPO=<dir> checks a scratch copy of
# the repository instead of /repo (separate binary and evidence directory under $VERIF_OUT).
set -u
HERE="$(cd "$(dirname "$0")" && pwd)"
export GOFLAGS=-mod=mod GOPROXY=off GOSUMDB=off GOTOOLCHAIN=local GOWORK=off
BIN="$HERE/bin/verif.$$"   # per-invocation binary: concurrent invocations never overwrite each other's executable
export VERIF_DIR="$HERE"
MODFLAG=""
if [ -n "${VERIF_REPO:-}" ]; then
  OUT="${VERIF_OUT:-$(mktemp -d /tmp/verif-alt.XXXXXX)}"
  mkdir -p "$OUT/evidence" "$OUT/replays"
  sed "s|=> /repo|=> $VERIF_REPO|" "$HERE/mc/go.mod" > "$OUT/go.alt.mod"
  cp "$HERE/mc/go.sum" "$OUT/go.alt.sum"
  MODFLAG="-modfile=$OUT/go.alt.mod"
  BIN="$OUT/verif.$$"
  export VERIF_EVIDENCE_DIR="$OUT" VERIF_MODFILE="$OUT/go.alt.mod"
fi
mkdir -p "$HERE/bin" "$HERE/evidence"
( cd "$HERE/mc" && go build $MODFLAG -o "$BIN" ./cmd/verif ) || { echo "BUILD-FAILED: harness does not compile against the repository working tree" >&2; exit 2; }
trap 'rm -f "$BIN"' EXIT
if [ "${1:-}" = "replay" ]; then
  "$BIN" replay "$2"
  exit $?
fi
"$BIN" check "$1" "${2:-${VERIF_TIER:-quick}}"
exit $?
