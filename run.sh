#!/bin/bash
# usage: ./run.sh <ID> <quick|thorough>   |   ./run.sh replay <file>
# Rebuilds the harness against /repo's current working tree (content-hashed
# build cache), then runs the check. Never runs go with cwd inside /repo.
set -u
HERE="$(cd "$(dirname "$0")" && pwd)"
export GOFLAGS=-mod=mod GOPROXY=off GOSUMDB=off GOTOOLCHAIN=local GOWORK=off
export VERIF_DIR="$HERE"
mkdir -p "$HERE/bin" "$HERE/evidence"
( cd "$HERE/mc" && go build -o "$HERE/bin/verif" ./cmd/verif ) || { echo "BUILD-FAILED: harness does not compile against /repo working tree" >&2; exit 2; }
if [ "${1:-}" = "replay" ]; then
  exec "$HERE/bin/verif" replay "$2"
fi
exec "$HERE/bin/verif" check "$1" "${2:-${VERIF_TIER:-quick}}"
