package spec

import "strings"

// Error classes of the documented failure reporting (property C18).
type ErrClass int

const (
	ClassNone     ErrClass = iota // not classified: only "some error" is required (C01)
	ClassHeader                   // ErrInvalidCVSSHeader
	ClassValue                    // ErrInvalidMetricValue
	ClassOrder                    // ErrInvalidMetricOrder (v2, v4)
	ClassShort                    // ErrTooShortVector
	ClassMissing                  // *ErrMissing{Abv} (v3)
	ClassDefinedN                 // *ErrDefinedN{Abv} (v3)
	ClassBadAbv                   // *ErrInvalidMetric{Abv} (v3)
)

func (c ErrClass) String() string {
	return [...]string{"unclassified", "ErrInvalidCVSSHeader", "ErrInvalidMetricValue", "ErrInvalidMetricOrder", "ErrTooShortVector", "*ErrMissing", "*ErrDefinedN", "*ErrInvalidMetric"}[c]
}

// Classification of a rejected string that has exactly one well-defined defect.
type Defect struct {
	Class ErrClass
	Abv   string // for the typed v3 errors
	Where string // coarse position of the defect (used in violation keys)
}

// viable reports whether elems (all well-formed legal elements given as metric indices,
// in this order) can be extended to a valid vector of a fixed-order version.
func (ver *Version) viableFixed(ms []int) bool {
	last := -1
	for _, m := range ms {
		if m <= last {
			return false
		}
		// no mandatory metric may be skipped
		for k := last + 1; k < m; k++ {
			if ver.Mandatory(k) {
				return false
			}
		}
		if ver == V2 {
			// groups are whole: a metric may only follow its predecessor inside a group, or start a group
			// after a complete earlier group
			g := ver.Metrics[m].Group
			firstOfGroup := m == 0 || ver.Metrics[m-1].Group != g
			if !firstOfGroup && last != m-1 {
				return false
			}
			if firstOfGroup && last >= 0 {
				// previous element must end its group
				if last+1 < len(ver.Metrics) && ver.Metrics[last+1].Group == ver.Metrics[last].Group {
					return false
				}
			}
		}
		last = m
	}
	return true
}

// validFixed: ms is a complete valid vector (given legal elements).
func (ver *Version) validFixed(ms []int) bool {
	if !ver.viableFixed(ms) {
		return false
	}
	seen := make([]bool, len(ver.Metrics))
	for _, m := range ms {
		seen[m] = true
	}
	for i := range ver.Metrics {
		if ver.Mandatory(i) && !seen[i] {
			return false
		}
	}
	if ver == V2 {
		if len(ms) == 0 {
			return false
		}
		l := ms[len(ms)-1]
		if l+1 < len(ver.Metrics) && ver.Metrics[l+1].Group == ver.Metrics[l].Group {
			return false
		}
	}
	return true
}

// splitElem splits "abv:val" at the first ':'; ok=false when there is no ':' or abv is empty.
func splitElem(e string) (abv, val string, ok bool) {
	i := strings.IndexByte(e, ':')
	if i <= 0 {
		return e, "", false
	}
	return e[:i], e[i+1:], true
}

// Classify analyses a string REJECTED by the version's grammar and returns the
// documented error class when the string has exactly one well-defined defect
// (see DESIGN.md section 5, C18). Everything ambiguous is ClassNone.
func (ver *Version) Classify(str string) Defect {
	// ---- header ----
	if ver.Header != "" {
		label := strings.TrimSuffix(ver.Header, "/") // "CVSS:3.1" / "CVSS:4.0"
		if !strings.HasPrefix(str, label) {
			return Defect{Class: ClassHeader, Where: "header"}
		}
		if !strings.HasPrefix(str, ver.Header) {
			return Defect{} // right label, missing separator: ambiguous
		}
	}
	rest := str[len(ver.Header):]
	var parts []string
	if ver.HdrSep {
		if rest == "" {
			parts = nil // header alone: zero elements
		} else if rest[0] != '/' {
			return Defect{} // bytes between header constant and first '/': ambiguous
		} else {
			parts = strings.Split(rest[1:], "/")
		}
	} else {
		parts = strings.Split(rest, "/")
	}
	if ver.AnyOrd {
		return ver.classifyAnyOrder(parts)
	}
	return ver.classifyFixed(parts)
}

func (ver *Version) classifyAnyOrder(parts []string) Defect {
	seen := make([]bool, len(ver.Metrics))
	var defects []Defect
	for _, p := range parts {
		abv, val, ok := splitElem(p)
		if !ok {
			return Defect{} // malformed / empty element: ambiguous
		}
		mi := ver.Index(abv)
		switch {
		case mi < 0:
			defects = append(defects, Defect{Class: ClassBadAbv, Abv: abv, Where: "unknown"})
		case seen[mi]:
			if ver.ValueIndex(mi, val) < 0 {
				return Defect{} // repeated AND illegal: two defects
			}
			defects = append(defects, Defect{Class: ClassDefinedN, Abv: abv, Where: abv})
		case ver.ValueIndex(mi, val) < 0:
			seen[mi] = true
			defects = append(defects, Defect{Class: ClassValue, Where: abv})
		default:
			seen[mi] = true
		}
	}
	first := ""
	for i, m := range ver.Metrics {
		if ver.Mandatory(i) && !seen[i] {
			first = m.Abv
			break
		}
	}
	switch {
	case len(defects) == 0 && first != "":
		return Defect{Class: ClassMissing, Abv: first, Where: first}
	case len(defects) == 1 && first == "":
		return defects[0]
	}
	return Defect{}
}

func (ver *Version) whereFixed(m int) string {
	if m >= len(ver.Metrics) {
		return "after-end"
	}
	return [...]string{"base", "group1", "group2", "group3"}[ver.Metrics[m].Group]
}

func (ver *Version) classifyFixed(parts []string) Defect {
	// longest viable prefix of legal elements
	var ms []int
	k := 0
	for ; k < len(parts); k++ {
		abv, val, ok := splitElem(parts[k])
		if !ok {
			break
		}
		mi := ver.Index(abv)
		if mi < 0 || ver.ValueIndex(mi, val) < 0 {
			break
		}
		if !ver.viableFixed(append(ms, mi)) {
			break
		}
		ms = append(ms, mi)
	}
	if k == len(parts) {
		// whole string viable but not valid: cut short at an element boundary inside a group that must be complete
		if ver.validFixed(ms) {
			return Defect{} // (not rejected)
		}
		return Defect{Class: ClassShort, Where: "cut-short"}
	}
	abv, val, ok := splitElem(parts[k])
	if !ok {
		return Defect{} // malformed / empty element
	}
	// the remaining elements must all be legal, otherwise more than one defect
	var tail []int
	for _, p := range parts[k+1:] {
		a, v, ok := splitElem(p)
		if !ok {
			return Defect{}
		}
		mi := ver.Index(a)
		if mi < 0 || ver.ValueIndex(mi, v) < 0 {
			return Defect{}
		}
		tail = append(tail, mi)
	}
	next := len(ver.Metrics)
	if len(ms) > 0 {
		next = ms[len(ms)-1] + 1
	} else {
		next = 0
	}
	mi := ver.Index(abv)
	acceptable := mi >= 0 && ver.viableFixed(append(append([]int(nil), ms...), mi))
	if acceptable {
		// right place, illegal value: repair the value
		if ver.ValueIndex(mi, val) >= 0 {
			return Defect{} // cannot happen (would have been consumed)
		}
		rep := append(append(append([]int(nil), ms...), mi), tail...)
		if ver.validFixed(rep) {
			return Defect{Class: ClassValue, Where: ver.whereFixed(mi)}
		}
		return Defect{}
	}
	// misplaced, repeated or unknown metric: repair by deleting it, or by substituting an acceptable element
	del := append(append([]int(nil), ms...), tail...)
	if ver.validFixed(del) {
		return Defect{Class: ClassOrder, Where: ver.whereFixed(next)}
	}
	for cand := range ver.Metrics {
		sub := append(append(append([]int(nil), ms...), cand), tail...)
		if ver.validFixed(sub) {
			return Defect{Class: ClassOrder, Where: ver.whereFixed(next)}
		}
	}
	return Defect{}
}
