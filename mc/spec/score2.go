package spec

import (
	"math/big"
	"sync"
)

// CVSS v2.0 scoring model (complete guide, section 3.2), exact.
//
// round_to_1_decimal is not defined by the guide at exact half-way points, so
// every rounding returns the SET of conforming tenths (two elements iff the
// exact value is a half-way point) and sets are propagated through the cascade
// base -> temporal -> environmental.

// TenthSet is a set of at most a few scores in tenths.
type TenthSet []int16

func (s TenthSet) Has(k int) bool {
	for _, x := range s {
		if int(x) == k {
			return true
		}
	}
	return false
}

func (s TenthSet) add(k int) TenthSet {
	if s.Has(k) {
		return s
	}
	return append(s, int16(k))
}

func rat(s string) *big.Rat {
	r, ok := new(big.Rat).SetString(s)
	if !ok {
		panic("bad rational " + s)
	}
	return r
}

// weights by value index of spec.V2 (table order)
var (
	v2AV  = []*big.Rat{rat("0.395"), rat("0.646"), rat("1.0")}          // L A N
	v2AC  = []*big.Rat{rat("0.35"), rat("0.61"), rat("0.71")}           // H M L
	v2Au  = []*big.Rat{rat("0.45"), rat("0.56"), rat("0.704")}          // M S N
	v2CIA = []*big.Rat{rat("0"), rat("0.275"), rat("0.660")}            // N P C
	v2E   = []int64{85, 90, 95, 100, 100}                               // U POC F H ND (hundredths)
	v2RL  = []int64{87, 90, 95, 100, 100}                               // OF TF W U ND
	v2RC  = []int64{90, 95, 100, 100}                                   // UC UR C ND
	v2CDP = []int64{0, 1, 3, 4, 5, 0}                                   // N L LM MH H ND (tenths)
	v2TD  = []int64{0, 25, 75, 100, 100}                                // N L M H ND (hundredths)
	v2R   = []*big.Rat{rat("0.5"), rat("1.0"), rat("1.51"), rat("1.0")} // L M H ND
)

// roundSetRat rounds an exact value (in score units) to tenths, returning both neighbours at a tie.
func roundSetRat(x *big.Rat) TenthSet {
	t := new(big.Rat).Mul(x, big.NewRat(10, 1))
	// floor
	fl := new(big.Int).Div(t.Num(), t.Denom()) // Euclidean division: floor for positive denominators
	frac := new(big.Rat).Sub(t, new(big.Rat).SetInt(fl))
	half := big.NewRat(1, 2)
	f := int(fl.Int64())
	switch frac.Cmp(half) {
	case -1:
		return TenthSet{int16(f)}
	case 1:
		return TenthSet{int16(f + 1)}
	}
	return TenthSet{int16(f), int16(f + 1)}
}

// roundSetInt rounds num/den (den>0), a value in tenths, to the nearest integer tenth.
func roundSetInt(num, den int64) TenthSet {
	fl := num / den
	rem := num % den
	if rem < 0 {
		fl--
		rem += den
	}
	switch {
	case 2*rem < den:
		return TenthSet{int16(fl)}
	case 2*rem > den:
		return TenthSet{int16(fl + 1)}
	}
	return TenthSet{int16(fl), int16(fl + 1)}
}

type v2Model struct {
	expl    [27]*big.Rat      // AV + 3*AC + 9*Au
	impact  [27]*big.Rat      // C + 3*I + 9*A   (uncapped Impact of the base equation)
	adjImp  [27 * 64]*big.Rat // (C,I,A) + 27*(CR + 4*IR + 16*AR), capped at 10
	base    [27][27]TenthSet  // [expl][impact]
	adjBase [27][27 * 64]TenthSet
	tempTab [120][100]TenthSet  // [tenths+v2off][E + 5*RL + 25*RC]
	envTab  [120][6][5]TenthSet // [tenths+v2off][CDP][TD]
	impactF [27]float64
	explF   [27]float64
}

var (
	v2once sync.Once
	v2m    *v2Model
)

func v2base(impact, expl *big.Rat) TenthSet {
	// round_to_1_decimal(((0.6*Impact)+(0.4*Exploitability)-1.5)*f(Impact)), f = 0 if Impact=0 else 1.176
	if impact.Sign() == 0 {
		return TenthSet{0}
	}
	x := new(big.Rat).Mul(rat("0.6"), impact)
	x.Add(x, new(big.Rat).Mul(rat("0.4"), expl))
	x.Sub(x, rat("1.5"))
	x.Mul(x, rat("1.176"))
	return roundSetRat(x)
}

func v2init() {
	m := &v2Model{}
	one := rat("1")
	for i := 0; i < 27; i++ {
		av, ac, au := i%3, (i/3)%3, i/9
		e := new(big.Rat).Mul(rat("20"), v2AV[av])
		e.Mul(e, v2AC[ac])
		e.Mul(e, v2Au[au])
		m.expl[i] = e
		c, ii, a := i%3, (i/3)%3, i/9
		p := new(big.Rat).Sub(one, v2CIA[c])
		p.Mul(p, new(big.Rat).Sub(one, v2CIA[ii]))
		p.Mul(p, new(big.Rat).Sub(one, v2CIA[a]))
		imp := new(big.Rat).Sub(one, p)
		imp.Mul(imp, rat("10.41"))
		m.impact[i] = imp
	}
	ten := rat("10")
	for j := 0; j < 27*64; j++ {
		cia, req := j%27, j/27
		c, ii, a := cia%3, (cia/3)%3, cia/9
		cr, ir, ar := req%4, (req/4)%4, req/16
		p := new(big.Rat).Sub(one, new(big.Rat).Mul(v2CIA[c], v2R[cr]))
		p.Mul(p, new(big.Rat).Sub(one, new(big.Rat).Mul(v2CIA[ii], v2R[ir])))
		p.Mul(p, new(big.Rat).Sub(one, new(big.Rat).Mul(v2CIA[a], v2R[ar])))
		imp := new(big.Rat).Sub(one, p)
		imp.Mul(imp, rat("10.41"))
		if imp.Cmp(ten) > 0 {
			imp = ten
		}
		m.adjImp[j] = imp
	}
	for e := 0; e < 27; e++ {
		for i := 0; i < 27; i++ {
			m.base[e][i] = v2base(m.impact[i], m.expl[e])
		}
		for j := 0; j < 27*64; j++ {
			m.adjBase[e][j] = v2base(m.adjImp[j], m.expl[e])
		}
	}
	for k := -v2off; k < 120-v2off; k++ {
		for t := 0; t < 100; t++ {
			if t/25 < 4 {
				m.tempTab[k+v2off][t] = v2temporalSlow(k, t%5, (t/5)%5, t/25)
			}
		}
		for c := 0; c < 6; c++ {
			for d := 0; d < 5; d++ {
				m.envTab[k+v2off][c][d] = v2envSlow(k, c, d)
			}
		}
	}
	for i := 0; i < 27; i++ {
		m.impactF[i], _ = m.impact[i].Float64()
		m.explF[i], _ = m.expl[i].Float64()
	}
	v2m = m
}

// V2Scores holds the conforming values of one assignment.
type V2Scores struct {
	Base, Temporal, Env TenthSet
	Impact, Expl        float64 // exact sub-scores rounded to float64
}

const v2off = 8 // tables are indexed by tenths+v2off (scores may be slightly negative)

func v2temporalSlow(k int, e, rl, rc int) TenthSet {
	p := v2E[e] * v2RL[rl] * v2RC[rc] // 1e-6 units
	return roundSetInt(int64(k)*p, 1000000)
}

func v2envSlow(k int, cdp, td int) TenthSet {
	// (AT + (10-AT)*CDP)*TD, in tenths: (10a + (100-a)*cdp) * td / 1000
	num := (10*int64(k) + (100-int64(k))*v2CDP[cdp]) * v2TD[td]
	return roundSetInt(num, 1000)
}

func union(sets ...TenthSet) TenthSet {
	if len(sets) == 1 {
		return sets[0]
	}
	var out TenthSet
	for _, s := range sets {
		for _, k := range s {
			out = out.add(int(k))
		}
	}
	return out
}

func v2temporal(b TenthSet, e, rl, rc int) TenthSet {
	m := v2m
	t := e + 5*rl + 25*rc
	if len(b) == 1 {
		return m.tempTab[int(b[0])+v2off][t]
	}
	var out TenthSet
	for _, k := range b {
		out = union(out, m.tempTab[int(k)+v2off][t])
	}
	return out
}

// V2Score evaluates the guide equations for an assignment of spec.V2 (value indices in table order).
func V2Score(a Assignment) V2Scores {
	v2once.Do(v2init)
	m := v2m
	e := int(a[0]) + 3*int(a[1]) + 9*int(a[2])
	cia := int(a[3]) + 3*int(a[4]) + 9*int(a[5])
	var r V2Scores
	r.Base = m.base[e][cia]
	r.Temporal = v2temporal(r.Base, int(a[6]), int(a[7]), int(a[8]))
	j := cia + 27*(int(a[11])+4*int(a[12])+16*int(a[13]))
	at := v2temporal(m.adjBase[e][j], int(a[6]), int(a[7]), int(a[8]))
	if len(at) == 1 {
		r.Env = m.envTab[int(at[0])+v2off][a[9]][a[10]]
	} else {
		for _, k := range at {
			r.Env = union(r.Env, m.envTab[int(k)+v2off][a[9]][a[10]])
		}
	}
	r.Impact = m.impactF[cia]
	r.Expl = m.explF[e]
	return r
}
