package spec

import (
	"regexp"
	"strings"
	"sync"
)

// Assignment is a model object: the value index (into Metric.Values) of each
// metric of the version.
type Assignment []int8

func (a Assignment) Clone() Assignment { return append(Assignment(nil), a...) }

// elemMap maps "AV:N" to (metric, value).
type elemRef struct{ m, v int8 }

var (
	elemMaps   = map[*Version]map[string]elemRef{}
	elemMapsMu sync.Mutex
)

func (ver *Version) elems() map[string]elemRef {
	elemMapsMu.Lock()
	defer elemMapsMu.Unlock()
	if m, ok := elemMaps[ver]; ok {
		return m
	}
	m := map[string]elemRef{}
	for mi, me := range ver.Metrics {
		for vi, val := range me.Values {
			m[me.Abv+":"+val] = elemRef{int8(mi), int8(vi)}
		}
	}
	elemMaps[ver] = m
	return m
}

// Parse is the reference recogniser and parser: ok reports membership in the
// version's vector language; vals gives, for an accepted string, the value
// index of every metric (the not-defined value for omitted optional metrics).
// It is written with strings.Split and a map from whole elements to
// (metric,value): no cursor arithmetic.
func (ver *Version) Parse(str string) (vals Assignment, ok bool) {
	if !strings.HasPrefix(str, ver.Header) {
		return nil, false
	}
	rest := str[len(ver.Header):]
	if ver.HdrSep {
		if !strings.HasPrefix(rest, "/") {
			return nil, false
		}
		rest = rest[1:]
	}
	parts := strings.Split(rest, "/")
	em := ver.elems()
	vals = make(Assignment, len(ver.Metrics))
	seen := make([]bool, len(ver.Metrics))
	for i := range vals {
		vals[i] = int8(ver.NDIndex(i)) // -1 for mandatory
	}
	last := -1
	for _, p := range parts {
		r, found := em[p]
		if !found {
			return nil, false
		}
		if seen[r.m] {
			return nil, false
		}
		if !ver.AnyOrd && int(r.m) <= last {
			return nil, false
		}
		last = int(r.m)
		seen[r.m] = true
		vals[r.m] = r.v
	}
	// mandatory metrics
	for i := range ver.Metrics {
		if ver.Mandatory(i) && !seen[i] {
			return nil, false
		}
	}
	if ver == V2 {
		// whole groups only
		for g := 1; g <= 2; g++ {
			n, tot := 0, 0
			for i, m := range ver.Metrics {
				if m.Group == g {
					tot++
					if seen[i] {
						n++
					}
				}
			}
			if n != 0 && n != tot {
				return nil, false
			}
		}
	}
	return vals, true
}

// Canon is the reference canonical serialiser of an assignment.
func (ver *Version) Canon(a Assignment) string {
	var sb strings.Builder
	sb.WriteString(ver.Header)
	first := true
	emit := func(i int) {
		if !first || ver.HdrSep {
			sb.WriteByte('/')
		}
		first = false
		sb.WriteString(ver.Metrics[i].Abv)
		sb.WriteByte(':')
		sb.WriteString(ver.Metrics[i].Values[a[i]])
	}
	if ver == V2 {
		for g := 0; g <= 2; g++ {
			any := g == 0
			for i, m := range ver.Metrics {
				if m.Group == g && int(a[i]) != ver.NDIndex(i) {
					any = true
				}
			}
			if !any {
				continue
			}
			for i, m := range ver.Metrics {
				if m.Group == g {
					emit(i)
				}
			}
		}
		return sb.String()
	}
	for i := range ver.Metrics {
		if !ver.Mandatory(i) && int(a[i]) == ver.NDIndex(i) {
			continue
		}
		emit(i)
	}
	return sb.String()
}

// Full serialises every metric explicitly (not canonical for optional X / ND).
func (ver *Version) Full(a Assignment) string {
	var sb strings.Builder
	sb.WriteString(ver.Header)
	for i := range ver.Metrics {
		if i > 0 || ver.HdrSep {
			sb.WriteByte('/')
		}
		sb.WriteString(ver.Metrics[i].Abv)
		sb.WriteByte(':')
		sb.WriteString(ver.Metrics[i].Values[a[i]])
	}
	return sb.String()
}

// Elem returns "abv:value".
func (ver *Version) Elem(m, v int) string {
	return ver.Metrics[m].Abv + ":" + ver.Metrics[m].Values[v]
}

// Join builds a vector string of the version from elements (no validation).
func (ver *Version) Join(elems []string) string {
	if ver.HdrSep {
		if len(elems) == 0 {
			return ver.Header
		}
		return ver.Header + "/" + strings.Join(elems, "/")
	}
	return ver.Header + strings.Join(elems, "/")
}

// ---- second, independent formulation (anchored regular expression) ----

var (
	reMu sync.Mutex
	res  = map[*Version]*regexp.Regexp{}
)

func alt(m Metric) string {
	q := make([]string, len(m.Values))
	for i, v := range m.Values {
		q[i] = regexp.QuoteMeta(v)
	}
	return regexp.QuoteMeta(m.Abv) + ":(?:" + strings.Join(q, "|") + ")"
}

// Regexp returns the anchored regular expression of the fixed-order grammars
// (v2, v4). For v3 (any order) it returns nil.
func (ver *Version) Regexp() *regexp.Regexp {
	if ver.AnyOrd {
		return nil
	}
	reMu.Lock()
	defer reMu.Unlock()
	if r, ok := res[ver]; ok {
		return r
	}
	var sb strings.Builder
	sb.WriteString("^" + regexp.QuoteMeta(ver.Header))
	if ver == V2 {
		for g := 0; g <= 2; g++ {
			if g > 0 {
				sb.WriteString("(?:")
			}
			for i, m := range ver.Metrics {
				if m.Group != g {
					continue
				}
				if i > 0 {
					sb.WriteString("/")
				}
				sb.WriteString(alt(m))
			}
			if g > 0 {
				sb.WriteString(")?")
			}
		}
	} else {
		for _, m := range ver.Metrics {
			if m.Group == 0 {
				sb.WriteString("/" + alt(m))
			} else {
				sb.WriteString("(?:/" + alt(m) + ")?")
			}
		}
	}
	sb.WriteString("$")
	r := regexp.MustCompile(sb.String())
	res[ver] = r
	return r
}

// ParseV3Scan is the second formulation for the any-order grammars: a byte
// scanner that consumes "ABV:VAL" greedily against the tables.
func (ver *Version) parseScan(str string) bool {
	if len(str) < len(ver.Header) || str[:len(ver.Header)] != ver.Header {
		return false
	}
	p := len(ver.Header)
	seen := make([]bool, len(ver.Metrics))
	for {
		// read abbreviation up to ':'
		q := p
		for q < len(str) && str[q] != ':' && str[q] != '/' {
			q++
		}
		if q >= len(str) || str[q] != ':' {
			return false
		}
		mi := ver.Index(str[p:q])
		if mi < 0 || seen[mi] {
			return false
		}
		seen[mi] = true
		p = q + 1
		q = p
		for q < len(str) && str[q] != '/' {
			q++
		}
		if ver.ValueIndex(mi, str[p:q]) < 0 {
			return false
		}
		if q == len(str) {
			break
		}
		p = q + 1
	}
	for i := range ver.Metrics {
		if ver.Mandatory(i) && !seen[i] {
			return false
		}
	}
	return true
}

// Accepts2 is the verdict of the second formulation.
func (ver *Version) Accepts2(str string) bool {
	if r := ver.Regexp(); r != nil {
		if strings.ContainsAny(str, "\n") {
			// '$' without (?s) flags: be explicit instead of relying on regexp newline rules
			return false
		}
		return r.MatchString(str)
	}
	return ver.parseScan(str)
}
