package spec

import (
	"fmt"
	"sync"
)

// CVSS v4.0 scoring model (specification section 8.2), in exact integer arithmetic.
//
// An effective class is the tuple of EFFECTIVE values of the 15 scoring
// metrics, each given by its severity index (0 = most severe):
//
//	AV {N,A,L,P}  AC {L,H}  AT {N,P}  PR {N,L,H}  UI {N,P,A}
//	VC VI VA {H,L,N}  SC {H,L,N}  SI SA {S,H,L,N}
//	E {A,P,U}  CR IR AR {H,M,L}
//
// The EQ predicates are transcribed from the specification tables 24-29. The
// highest-severity vectors of every level and the depths are DERIVED from those
// predicates at start-up (Pareto-maximal elements; max-min severity sum) instead
// of being copied from the code under test. The only copied data is the
// 270-entry MacroVector table (mvtable.go).

const (
	V4AV = iota
	V4AC
	V4AT
	V4PR
	V4UI
	V4VC
	V4VI
	V4VA
	V4SC
	V4SI
	V4SA
	V4E
	V4CR
	V4IR
	V4AR
	V4N
)

type V4Class [V4N]int8

// V4Radix is the number of severity levels of each effective metric.
var V4Radix = [V4N]int{4, 2, 2, 3, 3, 3, 3, 3, 3, 4, 4, 3, 3, 3, 3}

// V4SevNames gives the value letter of each severity index.
var V4SevNames = [V4N][]string{
	{"N", "A", "L", "P"}, {"L", "H"}, {"N", "P"}, {"N", "L", "H"}, {"N", "P", "A"},
	{"H", "L", "N"}, {"H", "L", "N"}, {"H", "L", "N"}, {"H", "L", "N"},
	{"S", "H", "L", "N"}, {"S", "H", "L", "N"},
	{"A", "P", "U"}, {"H", "M", "L"}, {"H", "M", "L"}, {"H", "M", "L"},
}

var V4MetricNames = [V4N]string{"AV", "AC", "AT", "PR", "UI", "VC", "VI", "VA", "SC", "SI", "SA", "E", "CR", "IR", "AR"}

const V4NumClasses = 15116544

// V4ClassFromIndex decodes a mixed-radix index (metric 0 fastest).
func V4ClassFromIndex(idx int) (c V4Class) {
	for i := 0; i < V4N; i++ {
		c[i] = int8(idx % V4Radix[i])
		idx /= V4Radix[i]
	}
	return
}

func (c V4Class) Index() int {
	idx, mul := 0, 1
	for i := 0; i < V4N; i++ {
		idx += int(c[i]) * mul
		mul *= V4Radix[i]
	}
	return idx
}

func (c V4Class) String() string {
	s := ""
	for i := 0; i < V4N; i++ {
		if i > 0 {
			s += "/"
		}
		s += V4MetricNames[i] + ":" + V4SevNames[i][c[i]]
	}
	return s
}

// V4MacroVector evaluates EQ1..EQ6 (tables 24-29).
func V4MacroVector(c V4Class) (eq [6]int) {
	avN, prN, uiN, avP := c[V4AV] == 0, c[V4PR] == 0, c[V4UI] == 0, c[V4AV] == 3
	switch {
	case avN && prN && uiN:
		eq[0] = 0
	case (avN || prN || uiN) && !avP:
		eq[0] = 1
	default:
		eq[0] = 2
	}
	if c[V4AC] == 0 && c[V4AT] == 0 {
		eq[1] = 0
	} else {
		eq[1] = 1
	}
	vcH, viH, vaH := c[V4VC] == 0, c[V4VI] == 0, c[V4VA] == 0
	switch {
	case vcH && viH:
		eq[2] = 0
	case vcH || viH || vaH:
		eq[2] = 1
	default:
		eq[2] = 2
	}
	switch {
	case c[V4SI] == 0 || c[V4SA] == 0: // MSI:S or MSA:S
		eq[3] = 0
	case c[V4SC] == 0 || c[V4SI] == 1 || c[V4SA] == 1: // SC:H or SI:H or SA:H
		eq[3] = 1
	default:
		eq[3] = 2
	}
	eq[4] = int(c[V4E])
	if (c[V4CR] == 0 && vcH) || (c[V4IR] == 0 && viH) || (c[V4AR] == 0 && vaH) {
		eq[5] = 0
	} else {
		eq[5] = 1
	}
	return
}

// groups of metrics whose severity distance is taken together.
var v4Groups = [5][]int{
	{V4AV, V4PR, V4UI},                   // EQ1
	{V4AC, V4AT},                         // EQ2
	{V4VC, V4VI, V4VA, V4CR, V4IR, V4AR}, // EQ3+EQ6
	{V4SC, V4SI, V4SA},                   // EQ4
	{V4E},                                // EQ5
}

type v4Level struct {
	maxima [][]int8 // Pareto-maximal sub-vectors of the level
	maxSum int      // severity sum shared by all maxima
	depth  int      // lowest - highest severity sum inside the level
}

type v4Model struct {
	levels [5]map[int]*v4Level   // group -> level key -> data ; key = eq (or eq3*2+eq6 for group 2)
	lookup [3][2][3][3][3][2]int // tenths, -1 when the MacroVector does not exist
}

var (
	v4once sync.Once
	v4m    *v4Model
	v4err  error
)

func levelKey(g int, eq [6]int) int {
	switch g {
	case 0:
		return eq[0]
	case 1:
		return eq[1]
	case 2:
		return eq[2]*2 + eq[5]
	case 3:
		return eq[3]
	default:
		return eq[4]
	}
}

func v4init() {
	m := &v4Model{}
	// lookup table + sanity
	for a := 0; a < 3; a++ {
		for b := 0; b < 2; b++ {
			for c := 0; c < 3; c++ {
				for d := 0; d < 3; d++ {
					for e := 0; e < 3; e++ {
						for f := 0; f < 2; f++ {
							m.lookup[a][b][c][d][e][f] = -1
						}
					}
				}
			}
		}
	}
	if len(mvTable) != 270 {
		v4err = fmt.Errorf("frozen MacroVector table has %d entries, want 270", len(mvTable))
		return
	}
	for k, v := range mvTable {
		d := [6]int{}
		for i := 0; i < 6; i++ {
			d[i] = int(k[i] - '0')
		}
		if d[0] > 2 || d[1] > 1 || d[2] > 2 || d[3] > 2 || d[4] > 2 || d[5] > 1 || v < 0 || v > 100 {
			v4err = fmt.Errorf("bad MacroVector entry %s", k)
			return
		}
		if d[2] == 2 && d[5] == 0 {
			v4err = fmt.Errorf("impossible (EQ3,EQ6) pair in table: %s", k)
			return
		}
		m.lookup[d[0]][d[1]][d[2]][d[3]][d[4]][d[5]] = v
	}
	// non-increasing along every EQ
	for k, v := range mvTable {
		for i := 0; i < 6; i++ {
			kb := []byte(k)
			kb[i]++
			if w, ok := mvTable[string(kb)]; ok && w > v {
				v4err = fmt.Errorf("MacroVector table increases from %s to %s", k, kb)
				return
			}
		}
	}
	// derive maxima and depths
	for g := 0; g < 5; g++ {
		m.levels[g] = map[int]*v4Level{}
		ms := v4Groups[g]
		n := 1
		for _, mi := range ms {
			n *= V4Radix[mi]
		}
		byLevel := map[int][][]int8{}
		for idx := 0; idx < n; idx++ {
			var c V4Class
			// neutral completion that does not disturb the group's own predicate: other metrics at 0
			sub := make([]int8, len(ms))
			x := idx
			for j, mi := range ms {
				sub[j] = int8(x % V4Radix[mi])
				x /= V4Radix[mi]
				c[mi] = sub[j]
			}
			key := levelKey(g, V4MacroVector(c))
			byLevel[key] = append(byLevel[key], sub)
		}
		for key, elems := range byLevel {
			lv := &v4Level{}
			lo, hi := 1<<30, -1
			for _, e := range elems {
				s := sum8(e)
				if s < lo {
					lo = s
				}
				if s > hi {
					hi = s
				}
				dominated := false
				for _, f := range elems {
					if !eq8(e, f) && dominates(f, e) {
						dominated = true
						break
					}
				}
				if !dominated {
					lv.maxima = append(lv.maxima, e)
				}
			}
			for _, mx := range lv.maxima {
				if sum8(mx) != lo {
					v4err = fmt.Errorf("group %d level %d: Pareto maxima with different severity sums", g, key)
					return
				}
			}
			lv.maxSum = lo
			lv.depth = hi - lo
			// well-definedness: every element dominated by a maximum; all dominating maxima give the same distance (same sum)
			for _, e := range elems {
				ok := false
				for _, mx := range lv.maxima {
					if dominates(mx, e) {
						ok = true
					}
				}
				if !ok {
					v4err = fmt.Errorf("group %d level %d: element without dominating maximum", g, key)
					return
				}
			}
			m.levels[g][key] = lv
		}
	}
	// exactly the 5 legal (EQ3,EQ6) pairs
	if len(m.levels[2]) != 5 {
		v4err = fmt.Errorf("expected 5 (EQ3,EQ6) levels, derived %d", len(m.levels[2]))
		return
	}
	// denominators must divide 840
	for g := 0; g < 5; g++ {
		for _, lv := range m.levels[g] {
			if 840%(lv.depth+1) != 0 {
				v4err = fmt.Errorf("depth+1=%d does not divide 840", lv.depth+1)
				return
			}
		}
	}
	v4m = m
}

func sum8(a []int8) int {
	s := 0
	for _, x := range a {
		s += int(x)
	}
	return s
}
func eq8(a, b []int8) bool {
	for i := range a {
		if a[i] != b[i] {
			return false
		}
	}
	return true
}

// dominates: a is at least as severe as b in every component.
func dominates(a, b []int8) bool {
	for i := range a {
		if a[i] > b[i] {
			return false
		}
	}
	return true
}

// V4Init prepares the model and returns an error when the start-up sanity checks fail.
func V4Init() error {
	v4once.Do(v4init)
	return v4err
}

// V4Derived exposes the derived tables for evidence/selftest.
func V4Derived() map[string]any {
	out := map[string]any{}
	for g := 0; g < 5; g++ {
		for key, lv := range v4m.levels[g] {
			out[fmt.Sprintf("group%d_level%d", g, key)] = map[string]any{"maxima": lv.maxima, "depth": lv.depth}
		}
	}
	return out
}

func (m *v4Model) look(eq [6]int) int {
	if eq[0] > 2 || eq[1] > 1 || eq[2] > 2 || eq[3] > 2 || eq[4] > 2 || eq[5] > 1 {
		return -1
	}
	return m.lookup[eq[0]][eq[1]][eq[2]][eq[3]][eq[4]][eq[5]]
}

// V4Score returns the exact score in tenths. tie reports that the exact value
// was precisely half-way between two tenths (rounded half-up in score10).
func V4Score(c V4Class) (score10 int, tie bool, eq [6]int) {
	m := v4m
	eq = V4MacroVector(c)
	// no impact on any system
	if c[V4VC] == 2 && c[V4VI] == 2 && c[V4VA] == 2 && c[V4SC] == 2 && c[V4SI] == 3 && c[V4SA] == 3 {
		return 0, false, eq
	}
	value := m.look(eq)
	if value < 0 {
		panic("model: MacroVector without table entry " + fmt.Sprint(eq))
	}
	// next lower MacroVectors per group
	var lower [5]int
	for g := range lower {
		lower[g] = -1
	}
	e := eq
	e[0]++
	lower[0] = m.look(e)
	e = eq
	e[1]++
	lower[1] = m.look(e)
	e = eq
	e[3]++
	lower[3] = m.look(e)
	e = eq
	e[4]++
	lower[4] = m.look(e)
	switch {
	case eq[2] == 1 && eq[5] == 1, eq[2] == 0 && eq[5] == 1:
		e = eq
		e[2]++
		lower[2] = m.look(e)
	case eq[2] == 1 && eq[5] == 0:
		e = eq
		e[5]++
		lower[2] = m.look(e)
	case eq[2] == 0 && eq[5] == 0:
		e = eq
		e[5]++
		l := m.look(e)
		e = eq
		e[2]++
		r := m.look(e)
		if l > r {
			lower[2] = l
		} else {
			lower[2] = r
		}
	default:
		lower[2] = -1
	}
	n := 0
	sumNum := 0 // in units of tenths/840
	for g := 0; g < 5; g++ {
		if lower[g] < 0 {
			continue
		}
		n++
		lv := m.levels[g][levelKey(g, eq)]
		s := 0
		for _, mi := range v4Groups[g] {
			s += int(c[mi])
		}
		dist := s - lv.maxSum
		if g == 4 {
			dist = 0 // one metric only: the vector is the highest severity vector of its level
		}
		avail := value - lower[g]
		sumNum += avail * dist * (840 / (lv.depth + 1))
	}
	if n == 0 {
		return value, false, eq
	}
	den := 840 * n
	num := value*den - sumNum // exact score in tenths = num/den
	if num < 0 {
		return 0, false, eq
	}
	if num > 100*den {
		return 100, false, eq
	}
	q := (2*num + den) / (2 * den)
	tie = (2*num+den)%(2*den) == 0
	return q, tie, eq
}
