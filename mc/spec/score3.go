package spec

import (
	"math/big"
	"sync"
)

// CVSS v3.0 / v3.1 scoring model (specification section 7 "CVSS v3.x Equations"), exact.
//
// An effective environmental class is: the 8 EFFECTIVE (modified-or-base) base
// metrics, CR/IR/AR (X allowed, a code of its own) and E/RL/RC (X allowed).
// First stage (base / modified base score before the temporal multipliers) is
// evaluated in exact rationals, memoised per (exploitability, impact) pair; the
// second stage (x E x RL x RC, Roundup) in exact integers.

// weights by value index of spec.V31 tables
var (
	v3AV   = []string{"0.85", "0.62", "0.55", "0.2"} // N A L P
	v3AC   = []string{"0.77", "0.44"}                // L H
	v3PRu  = []string{"0.85", "0.62", "0.27"}        // N L H, scope unchanged
	v3PRc  = []string{"0.85", "0.68", "0.5"}         // N L H, scope changed
	v3UI   = []string{"0.85", "0.62"}                // N R
	v3CIA  = []string{"0.56", "0.22", "0"}           // H L N
	v3E    = []int64{100, 100, 97, 94, 91}           // X H F P U (hundredths)
	v3RL   = []int64{100, 100, 97, 96, 95}           // X U W T O
	v3RC   = []int64{100, 100, 96, 92}               // X C R U
	v3CIAR = []string{"1", "1.5", "1", "0.5"}        // X H M L
)

// RoundupKind selects the Roundup definition.
type RoundupKind int

const (
	Roundup31   RoundupKind = iota // v3.1 appendix A integer definition
	RoundupCeil                    // v3.0: smallest one-decimal number >= input
)

// roundupRat applies Roundup to an exact rational (score units); returns tenths.
// amb reports that round_to_nearest_integer(x*100000) was an exact .5 tie (either way accepted).
func roundupRat(x *big.Rat, kind RoundupKind) (k int, alt int, amb bool) {
	if kind == RoundupCeil {
		t := new(big.Rat).Mul(x, big.NewRat(10, 1))
		fl := new(big.Int).Div(t.Num(), t.Denom())
		k = int(fl.Int64())
		if new(big.Rat).SetInt(fl).Cmp(t) != 0 {
			k++
		}
		return k, k, false
	}
	t := new(big.Rat).Mul(x, big.NewRat(100000, 1))
	fl := new(big.Int).Div(t.Num(), t.Denom())
	frac := new(big.Rat).Sub(t, new(big.Rat).SetInt(fl))
	ii := fl.Int64()
	c := frac.Cmp(big.NewRat(1, 2))
	f := func(i int64) int {
		if i%10000 == 0 {
			return int(i / 10000)
		}
		return int(i/10000) + 1
	}
	switch {
	case c < 0:
		return f(ii), f(ii), false
	case c > 0:
		return f(ii + 1), f(ii + 1), false
	}
	return f(ii), f(ii + 1), f(ii) != f(ii+1)
}

// roundupInt applies Roundup to num/1e7 (score units), i.e. num in 1e-7: used for k1(tenths)*E*RL*RC(1e-6).
func roundupInt(num int64, kind RoundupKind) (k, alt int, amb bool) {
	if kind == RoundupCeil {
		// tenths = num / 1e6, ceil
		k = int(num / 1000000)
		if num%1000000 != 0 {
			k++
		}
		return k, k, false
	}
	// int_input = round(num/100)
	q, rem := num/100, num%100
	f := func(i int64) int {
		if i%10000 == 0 {
			return int(i / 10000)
		}
		return int(i/10000) + 1
	}
	switch {
	case rem < 50:
		return f(q), f(q), false
	case rem > 50:
		return f(q + 1), f(q + 1), false
	}
	return f(q), f(q + 1), f(q) != f(q+1)
}

// V3Class: value indices AV AC PR UI S C I A (effective), E RL RC, CR IR AR — all in the order of spec.V31 tables
// (E RL RC CR IR AR include X at index 0).
type V3Class struct {
	AV, AC, PR, UI, S, C, I, A int8
	E, RL, RC                  int8
	CR, IR, AR                 int8
}

type v3Model struct {
	is31 bool
	// first stage, in tenths after Roundup, for both Roundup definitions [kind]
	// index: expl (AV + 4*AC + 8*PR + 24*UI = 48) ; scope ; impact index (C + 3*I + 9*A + 27*(CR + 4*IR + 16*AR))
	modBase         [2][2][48][27 * 64]int16
	modAmb          [2][48][27 * 64]bool
	base            [2][2][48][27]int16
	impactF         [2][27]float64 // Impact() by scope
	explF           [2][48]float64
	roundupDisagree int // first-stage values where the two Roundup definitions differ
}

var (
	v3once sync.Once
	v3ms   [2]*v3Model // [0]=3.0, [1]=3.1
)

func v3pow(x *big.Rat, n int) *big.Rat {
	r := big.NewRat(1, 1)
	for i := 0; i < n; i++ {
		r.Mul(r, x)
	}
	return r
}

func v3build(is31 bool) *v3Model {
	m := &v3Model{is31: is31}
	one := big.NewRat(1, 1)
	ten := big.NewRat(10, 1)
	// exploitability by scope
	var expl [2][48]*big.Rat
	for s := 0; s < 2; s++ {
		for e := 0; e < 48; e++ {
			av, ac, pr, ui := e%4, (e/4)%2, (e/8)%3, e/24
			prw := v3PRu[pr]
			if s == 1 {
				prw = v3PRc[pr]
			}
			x := rat("8.22")
			x.Mul(x, rat(v3AV[av]))
			x.Mul(x, rat(v3AC[ac]))
			x.Mul(x, rat(prw))
			x.Mul(x, rat(v3UI[ui]))
			expl[s][e] = x
			m.explF[s][e], _ = x.Float64()
		}
	}
	score := func(impact, ex *big.Rat, s int, kind RoundupKind) (int, bool) {
		if impact.Sign() <= 0 {
			return 0, false
		}
		x := new(big.Rat).Add(impact, ex)
		if s == 1 {
			x.Mul(x, rat("1.08"))
		}
		if x.Cmp(ten) > 0 {
			x = ten
		}
		k, alt, amb := roundupRat(x, kind)
		_ = alt
		return k, amb
	}
	// base impact (no requirements, no cap, base formula — identical in 3.0 and 3.1)
	for ci := 0; ci < 27; ci++ {
		c, i, a := ci%3, (ci/3)%3, ci/9
		p := new(big.Rat).Sub(one, rat(v3CIA[c]))
		p.Mul(p, new(big.Rat).Sub(one, rat(v3CIA[i])))
		p.Mul(p, new(big.Rat).Sub(one, rat(v3CIA[a])))
		iss := new(big.Rat).Sub(one, p)
		for s := 0; s < 2; s++ {
			var imp *big.Rat
			if s == 0 {
				imp = new(big.Rat).Mul(rat("6.42"), iss)
			} else {
				imp = new(big.Rat).Mul(rat("7.52"), new(big.Rat).Sub(iss, rat("0.029")))
				imp.Sub(imp, new(big.Rat).Mul(rat("3.25"), v3pow(new(big.Rat).Sub(iss, rat("0.02")), 15)))
			}
			m.impactF[s][ci], _ = imp.Float64()
			for e := 0; e < 48; e++ {
				for kind := 0; kind < 2; kind++ {
					k, _ := score(imp, expl[s][e], s, RoundupKind(kind))
					m.base[kind][s][e][ci] = int16(k)
				}
			}
		}
	}
	// modified impact
	cap := rat("0.915")
	for j := 0; j < 27*64; j++ {
		ci, rq := j%27, j/27
		c, i, a := ci%3, (ci/3)%3, ci/9
		cr, ir, ar := rq%4, (rq/4)%4, rq/16
		p := new(big.Rat).Sub(one, new(big.Rat).Mul(rat(v3CIA[c]), rat(v3CIAR[cr])))
		p.Mul(p, new(big.Rat).Sub(one, new(big.Rat).Mul(rat(v3CIA[i]), rat(v3CIAR[ir]))))
		p.Mul(p, new(big.Rat).Sub(one, new(big.Rat).Mul(rat(v3CIA[a]), rat(v3CIAR[ar]))))
		miss := new(big.Rat).Sub(one, p)
		if miss.Cmp(cap) > 0 {
			miss = cap
		}
		for s := 0; s < 2; s++ {
			var imp *big.Rat
			if s == 0 {
				imp = new(big.Rat).Mul(rat("6.42"), miss)
			} else if is31 {
				imp = new(big.Rat).Mul(rat("7.52"), new(big.Rat).Sub(miss, rat("0.029")))
				y := new(big.Rat).Mul(miss, rat("0.9731"))
				y.Sub(y, rat("0.02"))
				imp.Sub(imp, new(big.Rat).Mul(rat("3.25"), v3pow(y, 13)))
			} else {
				imp = new(big.Rat).Mul(rat("7.52"), new(big.Rat).Sub(miss, rat("0.029")))
				imp.Sub(imp, new(big.Rat).Mul(rat("3.25"), v3pow(new(big.Rat).Sub(miss, rat("0.02")), 15)))
			}
			for e := 0; e < 48; e++ {
				k0, amb := score(imp, expl[s][e], s, Roundup31)
				k1, _ := score(imp, expl[s][e], s, RoundupCeil)
				m.modBase[0][s][e][j] = int16(k0)
				m.modBase[1][s][e][j] = int16(k1)
				m.modAmb[s][e][j] = amb
				if k0 != k1 {
					m.roundupDisagree++
				}
			}
		}
	}
	return m
}

func v3init() {
	var wg sync.WaitGroup
	for i := 0; i < 2; i++ {
		wg.Add(1)
		go func(i int) { defer wg.Done(); v3ms[i] = v3build(i == 1) }(i)
	}
	wg.Wait()
}

// V3Scores: conforming values in tenths. For each score the value under the
// version's own Roundup definition, plus the value under the other definition
// (they coincide on every value that occurs; reported, not assumed).
type V3Scores struct {
	Base, Temporal, Env          int
	BaseAlt, TemporalAlt, EnvAlt int // under the other Roundup definition
	Impact, Expl                 float64
	Ambiguous                    bool // an exact .5 tie inside round_to_nearest_integer occurred
}

// V3Score evaluates the equations. is31 selects the version; BaseScore and
// TemporalScore are those of an object whose BASE metrics equal the effective ones.
func V3Score(c V3Class, is31 bool) V3Scores {
	v3once.Do(v3init)
	m := v3ms[0]
	own, other := 1, 0 // v3.0: own = ceil
	if is31 {
		m = v3ms[1]
		own, other = 0, 1
	}
	e := int(c.AV) + 4*int(c.AC) + 8*int(c.PR) + 24*int(c.UI)
	ci := int(c.C) + 3*int(c.I) + 9*int(c.A)
	j := ci + 27*(int(c.CR)+4*int(c.IR)+16*int(c.AR))
	s := int(c.S)
	p := v3E[c.E] * v3RL[c.RL] * v3RC[c.RC]
	var r V3Scores
	r.Base = int(m.base[own][s][e][ci])
	r.BaseAlt = int(m.base[other][s][e][ci])
	kinds := [2]RoundupKind{Roundup31, RoundupCeil}
	var amb, amb2 bool
	r.Temporal, _, amb = roundupInt(int64(r.Base)*p, kinds[own])
	r.TemporalAlt, _, _ = roundupInt(int64(r.BaseAlt)*p, kinds[other])
	r.Env, _, amb2 = roundupInt(int64(m.modBase[own][s][e][j])*p, kinds[own])
	r.EnvAlt, _, _ = roundupInt(int64(m.modBase[other][s][e][j])*p, kinds[other])
	r.Ambiguous = amb || amb2 || m.modAmb[s][e][j]
	r.Impact = m.impactF[s][ci]
	r.Expl = m.explF[s][e]
	return r
}

// V3RoundupDisagreements returns how many first-stage values the two Roundup definitions round differently.
func V3RoundupDisagreements(is31 bool) int {
	v3once.Do(v3init)
	if is31 {
		return v3ms[1].roundupDisagree
	}
	return v3ms[0].roundupDisagree
}
