// Package spec holds the reference models ("boring", table driven) used as
// oracles by the exploration engines. Nothing in this package imports the
// code under test.
package spec

// Metric is one metric of a CVSS version: its abbreviation and its value set,
// listed in the order the FIRST specification documents print them (which is
// NOT the storage-code order of the implementation).
type Metric struct {
	Abv    string
	Values []string
	// Group: v2: 0 base, 1 temporal, 2 environmental.
	// v3: 0 base (mandatory), 1 temporal, 2 environmental.
	// v4: 0 base (mandatory), 1 threat, 2 environmental, 3 supplemental.
	Group int
}

// Version describes the vector grammar of one CVSS version.
type Version struct {
	Name    string // "2.0", "3.0", "3.1", "4.0"
	Header  string // text that must precede the first element ("" for v2)
	HdrSep  bool   // v4: every element, also the first, is preceded by '/'
	Metrics []Metric
	ND      string // the 'not defined' value of optional metrics
	AnyOrd  bool   // v3: metrics may come in any order
	byAbv   map[string]int
}

func (v *Version) Index(abv string) int {
	if i, ok := v.byAbv[abv]; ok {
		return i
	}
	return -1
}

func (v *Version) ValueIndex(m int, val string) int {
	for i, x := range v.Metrics[m].Values {
		if x == val {
			return i
		}
	}
	return -1
}

// Mandatory reports whether metric m must be present in every vector.
func (v *Version) Mandatory(m int) bool { return v.Metrics[m].Group == 0 }

// NDIndex is the value index of the not-defined value of optional metric m (-1 for mandatory ones).
func (v *Version) NDIndex(m int) int {
	if v.Mandatory(m) {
		return -1
	}
	return v.ValueIndex(m, v.ND)
}

func (v *Version) NumBase() int {
	n := 0
	for _, m := range v.Metrics {
		if m.Group == 0 {
			n++
		}
	}
	return n
}

func mk(name, header string, hdrSep, anyOrd bool, nd string, ms []Metric) *Version {
	v := &Version{Name: name, Header: header, HdrSep: hdrSep, AnyOrd: anyOrd, ND: nd, Metrics: ms, byAbv: map[string]int{}}
	for i, m := range ms {
		if _, dup := v.byAbv[m.Abv]; dup {
			panic("duplicate metric in table: " + m.Abv)
		}
		v.byAbv[m.Abv] = i
	}
	return v
}

func s(xs ...string) []string { return xs }

// V2 — CVSS v2.0 complete guide, section 2 (metric values) and 2.4 (vectors).
var V2 = mk("2.0", "", false, false, "ND", []Metric{
	{"AV", s("L", "A", "N"), 0},
	{"AC", s("H", "M", "L"), 0},
	{"Au", s("M", "S", "N"), 0},
	{"C", s("N", "P", "C"), 0},
	{"I", s("N", "P", "C"), 0},
	{"A", s("N", "P", "C"), 0},
	{"E", s("U", "POC", "F", "H", "ND"), 1},
	{"RL", s("OF", "TF", "W", "U", "ND"), 1},
	{"RC", s("UC", "UR", "C", "ND"), 1},
	{"CDP", s("N", "L", "LM", "MH", "H", "ND"), 2},
	{"TD", s("N", "L", "M", "H", "ND"), 2},
	{"CR", s("L", "M", "H", "ND"), 2},
	{"IR", s("L", "M", "H", "ND"), 2},
	{"AR", s("L", "M", "H", "ND"), 2},
})

func v3metrics() []Metric {
	return []Metric{
		{"AV", s("N", "A", "L", "P"), 0},
		{"AC", s("L", "H"), 0},
		{"PR", s("N", "L", "H"), 0},
		{"UI", s("N", "R"), 0},
		{"S", s("U", "C"), 0},
		{"C", s("H", "L", "N"), 0},
		{"I", s("H", "L", "N"), 0},
		{"A", s("H", "L", "N"), 0},
		{"E", s("X", "H", "F", "P", "U"), 1},
		{"RL", s("X", "U", "W", "T", "O"), 1},
		{"RC", s("X", "C", "R", "U"), 1},
		{"CR", s("X", "H", "M", "L"), 2},
		{"IR", s("X", "H", "M", "L"), 2},
		{"AR", s("X", "H", "M", "L"), 2},
		{"MAV", s("X", "N", "A", "L", "P"), 2},
		{"MAC", s("X", "L", "H"), 2},
		{"MPR", s("X", "N", "L", "H"), 2},
		{"MUI", s("X", "N", "R"), 2},
		{"MS", s("X", "U", "C"), 2},
		{"MC", s("X", "H", "L", "N"), 2},
		{"MI", s("X", "H", "L", "N"), 2},
		{"MA", s("X", "H", "L", "N"), 2},
	}
}

// V30 / V31 — CVSS v3.x specification, section 6 (vector string) and tables 1-15.
var V30 = mk("3.0", "CVSS:3.0/", false, true, "X", v3metrics())
var V31 = mk("3.1", "CVSS:3.1/", false, true, "X", v3metrics())

// V4 — CVSS v4.0 specification, section 7 (vector string), Table 23.
var V4 = mk("4.0", "CVSS:4.0", true, false, "X", []Metric{
	{"AV", s("N", "A", "L", "P"), 0},
	{"AC", s("L", "H"), 0},
	{"AT", s("N", "P"), 0},
	{"PR", s("N", "L", "H"), 0},
	{"UI", s("N", "P", "A"), 0},
	{"VC", s("H", "L", "N"), 0},
	{"VI", s("H", "L", "N"), 0},
	{"VA", s("H", "L", "N"), 0},
	{"SC", s("H", "L", "N"), 0},
	{"SI", s("H", "L", "N"), 0},
	{"SA", s("H", "L", "N"), 0},
	{"E", s("X", "A", "P", "U"), 1},
	{"CR", s("X", "H", "M", "L"), 2},
	{"IR", s("X", "H", "M", "L"), 2},
	{"AR", s("X", "H", "M", "L"), 2},
	{"MAV", s("X", "N", "A", "L", "P"), 2},
	{"MAC", s("X", "L", "H"), 2},
	{"MAT", s("X", "N", "P"), 2},
	{"MPR", s("X", "N", "L", "H"), 2},
	{"MUI", s("X", "N", "P", "A"), 2},
	{"MVC", s("X", "H", "L", "N"), 2},
	{"MVI", s("X", "H", "L", "N"), 2},
	{"MVA", s("X", "H", "L", "N"), 2},
	{"MSC", s("X", "H", "L", "N"), 2},
	{"MSI", s("X", "S", "H", "L", "N"), 2},
	{"MSA", s("X", "S", "H", "L", "N"), 2},
	{"S", s("X", "N", "P"), 3},
	{"AU", s("X", "N", "Y"), 3},
	{"R", s("X", "A", "U", "I"), 3},
	{"V", s("X", "D", "C"), 3},
	{"RE", s("X", "L", "M", "H"), 3},
	{"U", s("X", "Clear", "Green", "Amber", "Red"), 3},
})

var Versions = []*Version{V2, V30, V31, V4}

// NumStates is the number of metric assignments of the version.
func (v *Version) NumStates() float64 {
	n := 1.0
	for _, m := range v.Metrics {
		n *= float64(len(m.Values))
	}
	return n
}
