package engine

import (
	"fmt"
	"math/bits"
	"strings"

	"verif/mc/spec"
)

type strPlan struct {
	seedRots    int
	k2Seeds     int  // seeds per version for the k=2 element-level phase
	v2Whole     bool // enumerate all 141,441,309 valid v2 strings
	v3AllSets   bool // all 2^22 seen-sets (else |optional| <= 3 or >= 11)
	v4AllSets   bool // all 2^21 optional subsets (else size <= 4 or >= 17)
	headerDepth int
	permsAll    bool
}

func strPlanFor(tier string) strPlan {
	if tier == "thorough" {
		return strPlan{seedRots: 6, k2Seeds: 3, v2Whole: true, v3AllSets: true, v4AllSets: true, headerDepth: 2, permsAll: true}
	}
	return strPlan{seedRots: 3, k2Seeds: 1, v2Whole: false, v3AllSets: false, v4AllSets: false, headerDepth: 1, permsAll: true}
}

// RunStrSpace runs all generators of E1 with the given predicates.
func RunStrSpace(r *Report, preds SPred, plan strPlan) *SS {
	s := NewSS(r, preds)
	legal := allLegalElems()

	// ---- phase A: k = 1 deviations of the seeds (element level and byte level) ----
	type task func()
	var tasks []task
	nSeeds := 0
	for _, ver := range spec.Versions {
		ver := ver
		tokens := append(append([]string(nil), legal...), junkTokens(ver)...)
		vals, abvs := valueJunk(ver), abvJunk(ver)
		for _, sd := range seedsFor(ver, plan.seedRots) {
			sd := sd
			nSeeds++
			tasks = append(tasks, func() { s.EvalD(sd.String()); elementEdits(sd, tokens, vals, abvs, s.EvalD) })
			tasks = append(tasks, func() { byteEdits(sd.String(), s.EvalD) })
		}
	}
	Parallel(len(tasks), 16, func(i int) {
		if !r.TooMany() {
			tasks[i]()
		}
	})
	r.SetExtra("seeds", nSeeds)
	r.SetExtra("k1_strings", s.NStrings.Load())

	// ---- phase B: k = 2 element-level deviations on a few seeds ----
	tasks = nil
	before := s.NStrings.Load()
	for _, ver := range spec.Versions {
		ver := ver
		sds := seedsFor(ver, 1)
		small := smallTokens(ver)
		n2 := plan.k2Seeds
		if ver == spec.V2 {
			n2 = len(sds) // all group shapes of v2 (short vectors): base, full, full with ND, base+temporal, base+environmental, explicit ND groups
		}
		for i := 0; i < n2 && i < len(sds); i++ {
			sd := sds[i]
			if len(sd.elems) > 14 && i > 0 {
				// very long seeds: keep k=2 affordable by using the minimal seed plus one optional
				sd = sds[len(sds)-1]
			}
			tasks = append(tasks, func() { elementEdits2(sd, small, s.EvalD) })
		}
	}
	Parallel(len(tasks), 16, func(i int) {
		if !r.TooMany() {
			tasks[i]()
		}
	})
	r.SetExtra("k2_strings", s.NStrings.Load()-before)

	// ---- phase C: language enumerations ----
	before = s.NStrings.Load()
	enumV2(s, plan)
	r.SetExtra("v2_language_strings", s.NStrings.Load()-before)
	before = s.NStrings.Load()
	enumSubsetsFixed(s, spec.V2, plan.seedRots)
	enumSubsetsFixed(s, spec.V4, 1)
	r.SetExtra("fixed_order_metric_subset_strings", s.NStrings.Load()-before)
	before = s.NStrings.Load()
	enumV3(s, spec.V30, plan)
	enumV3(s, spec.V31, plan)
	r.SetExtra("v3_enumerated_strings", s.NStrings.Load()-before)
	before = s.NStrings.Load()
	enumV4(s, plan)
	r.SetExtra("v4_enumerated_strings", s.NStrings.Load()-before)

	// ---- phase D: header matrix ----
	before = s.NStrings.Load()
	hv := headerVariants()
	if plan.headerDepth >= 2 {
		// second level: every variant edited once more at its end/start with the small alphabet
		set := map[string]bool{}
		for _, h := range hv {
			set[h] = true
			for _, c := range []string{"/", ":", "C", "3", "4", ".", "0", "1", " "} {
				set[h+c] = true
				set[c+h] = true
				if len(h) > 0 {
					set[h[:len(h)-1]+c] = true
					set[c+h[1:]] = true
				}
			}
		}
		hv = sortedKeys(set)
	}
	var bodies []string
	for _, ver := range spec.Versions {
		a := definedRot(ver, 1)
		min := strings.Join(elemsOf(ver, a, func(i int) bool { return ver.Mandatory(i) }), "/")
		max := strings.Join(elemsOf(ver, a, nil), "/")
		bodies = append(bodies, min, max, "/"+min, "/"+max)
	}
	Parallel(len(hv), 16, func(i int) {
		for _, b := range bodies {
			s.EvalD(hv[i] + b)
		}
	})
	r.SetExtra("header_variants", len(hv))
	r.SetExtra("header_matrix_strings", s.NStrings.Load()-before)

	// ---- phase E: long inputs (length thresholds of fast paths, narrow counters, fixed-size scratch arrays) ----
	before = s.NStrings.Load()
	longInputs(s)
	r.SetExtra("long_input_strings", s.NStrings.Load()-before)

	// bookkeeping
	r.States.Store(s.NStrings.Load())
	r.Transitions.Store(s.NStrings.Load() * 4)
	r.Traces.Store(s.NStrings.Load())
	r.Evaluations.Store(s.NStrings.Load() * 4)
	r.Distinct.Store(s.NStrings.Load())
	r.SetExtra("duplicates_skipped", s.NDup.Load())
	r.SetExtra("acceptances", s.NAccepted.Load())
	r.SetExtra("classified_single_defect_pairs", s.NClassed.Load())
	hist := map[string]int64{}
	for c := 1; c < 8; c++ {
		hist[spec.ErrClass(c).String()] = s.ClassHist[c].Load()
	}
	r.SetExtra("classified_by_class", hist)
	r.SetExtra("model_self_inconsistencies", s.ModelDis.Load())
	if s.ModelDis.Load() > 0 {
		r.NotExhaustive("the two formulations of the reference grammar disagreed on some strings (those strings were not judged)")
	}
	return s
}

// enumV2: the v2 language (all of it in thorough).
func enumV2(s *SS, plan strPlan) {
	ver := spec.V2
	r := s.R
	baseN := 729
	type grp struct {
		ms []int
		n  int
	}
	mk := func(ms []int) grp {
		n := 1
		for _, m := range ms {
			n *= len(ver.Metrics[m].Values)
		}
		return grp{ms, n}
	}
	base, temp, env := mk([]int{0, 1, 2, 3, 4, 5}), mk([]int{6, 7, 8}), mk([]int{9, 10, 11, 12, 13})
	render := func(g grp, idx int, sb *strings.Builder, first bool) {
		for _, m := range g.ms {
			k := idx % len(ver.Metrics[m].Values)
			idx /= len(ver.Metrics[m].Values)
			if !first {
				sb.WriteByte('/')
			}
			first = false
			sb.WriteString(ver.Metrics[m].Abv)
			sb.WriteByte(':')
			sb.WriteString(ver.Metrics[m].Values[k])
		}
	}
	_ = baseN
	// shapes: base; base+temp; base+env; base+temp+env. In quick the two-group shape uses 3 base rotations.
	Parallel(base.n, 16, func(b int) {
		if r.TooMany() {
			return
		}
		var sb strings.Builder
		sb.Reset()
		render(base, b, &sb, true)
		bs := sb.String()
		s.Eval(bs)
		for t := 0; t < temp.n; t++ {
			sb.Reset()
			sb.WriteString(bs)
			render(temp, t, &sb, false)
			ts := sb.String()
			s.Eval(ts)
			if plan.v2Whole || b%243 == 7 {
				for e := 0; e < env.n; e++ {
					sb.Reset()
					sb.WriteString(ts)
					render(env, e, &sb, false)
					s.Eval(sb.String())
				}
			}
		}
		for e := 0; e < env.n; e++ {
			sb.Reset()
			sb.WriteString(bs)
			render(env, e, &sb, false)
			s.Eval(sb.String())
		}
	})
}

// enumSubsetsFixed: for the fixed-order grammars, every subset of the metrics of a full vector, kept in
// canonical order (v2: all 2^14; v4: all 2^11 base subsets x optional subsets of size <= 2 or >= 19),
// x value rotations. Only a handful of these are valid; every other one must be rejected.
func enumSubsetsFixed(s *SS, ver *spec.Version, rots int) {
	r := s.R
	nm := len(ver.Metrics)
	nb := ver.NumBase()
	nopt := nm - nb
	var optSets []int
	for set := 0; set < 1<<nopt; set++ {
		c := bits.OnesCount(uint(set))
		if nopt <= 8 || c <= 2 || c >= nopt-2 {
			optSets = append(optSets, set)
		}
	}
	Parallel(1<<nb, 16, func(bset int) {
		if r.TooMany() {
			return
		}
		for rot := 0; rot < rots; rot++ {
			a := definedRot(ver, rot)
			for _, oset := range optSets {
				var el []string
				for i := 0; i < nm; i++ {
					in := false
					if i < nb {
						in = bset&(1<<i) != 0
					} else {
						in = oset&(1<<(i-nb)) != 0
					}
					if in {
						el = append(el, ver.Elem(i, int(a[i])))
					}
				}
				s.Eval(ver.Join(el))
			}
		}
	})
}

// enumV3: seen-sets in canonical order, permutations of the base vector, insertion of optional elements at every position.
func enumV3(s *SS, ver *spec.Version, plan strPlan) {
	r := s.R
	nm := len(ver.Metrics)
	// (a) every subset of the 22 metrics in canonical order, values rotating with the subset
	vjunk3 := valueJunk(ver)
	tokens3 := append(allLegalElems(), junkTokens(ver)...)
	total := 1 << nm
	chunk := 1 << 12
	Parallel(total/chunk, 16, func(ci int) {
		if r.TooMany() {
			return
		}
		var sb strings.Builder
		for set := ci * chunk; set < (ci+1)*chunk; set++ {
			opt := bits.OnesCount(uint(set >> 8))
			if !plan.v3AllSets && opt > 3 && opt < 11 {
				continue
			}
			sb.Reset()
			sb.WriteString(ver.Header)
			first := true
			for i := 0; i < nm; i++ {
				if set&(1<<i) == 0 {
					continue
				}
				if !first {
					sb.WriteByte('/')
				}
				first = false
				m := ver.Metrics[i]
				sb.WriteString(m.Abv)
				sb.WriteByte(':')
				sb.WriteString(m.Values[(set+i)%len(m.Values)])
			}
			str := sb.String()
			s.Eval(str)
			if set != 0 {
				s.Eval(corruptElem(str, len(ver.Header), set, vjunk3))
				s.Eval(str + "/" + tokens3[set%len(tokens3)])
			}
		}
	})
	// (b) all 8! orders of the base-only vector
	a := definedRot(ver, 2)
	base := elemsOf(ver, a, func(i int) bool { return ver.Mandatory(i) })
	var perms [][]string
	var rec func(k int, cur []string, used int)
	rec = func(k int, cur []string, used int) {
		if k == len(base) {
			perms = append(perms, append([]string(nil), cur...))
			return
		}
		for i := range base {
			if used&(1<<i) == 0 {
				rec(k+1, append(cur, base[i]), used|1<<i)
			}
		}
	}
	rec(0, nil, 0)
	Parallel(len(perms), 16, func(i int) { s.Eval(ver.Join(perms[i])) })
	// (c) every optional element (every value) inserted at each of the 9 positions of 8 rotations of the base vector
	for rot := 0; rot < len(base); rot++ {
		rb := append(append([]string(nil), base[rot:]...), base[:rot]...)
		for mi, m := range ver.Metrics {
			if ver.Mandatory(mi) {
				continue
			}
			for vi := range m.Values {
				for pos := 0; pos <= len(rb); pos++ {
					s.Eval(ver.Join(cat(rb[:pos], []string{ver.Elem(mi, vi)}, rb[pos:])))
				}
			}
		}
	}
	// (e) pair-order sweep: every ordered pair of metrics (X before Y) with every pair of their values moved to the
	// front, the remaining metrics following in canonical order (all of them / mandatory ones only) — the order in
	// which two fields of the packed object are written, with every joint value
	for x := 0; x < nm; x++ {
		for y := 0; y < nm; y++ {
			if x == y {
				continue
			}
			for vx := range ver.Metrics[x].Values {
				for vy := range ver.Metrics[y].Values {
					for _, full := range []bool{true, false} {
						a := definedRot(ver, vx+vy)
						el := []string{ver.Elem(x, vx), ver.Elem(y, vy)}
						for i := 0; i < nm; i++ {
							if i == x || i == y || (!full && !ver.Mandatory(i)) {
								continue
							}
							el = append(el, ver.Elem(i, int(a[i])))
						}
						s.Eval(ver.Join(el))
						// and the same two written last
						s.Eval(ver.Join(append(append([]string(nil), el[2:]...), el[0], el[1])))
					}
				}
			}
		}
	}
	// (d) rotations and reversal of full vectors
	for rot := 0; rot < 4; rot++ {
		full := elemsOf(ver, definedRot(ver, rot), nil)
		for k := 0; k < len(full); k++ {
			x := append(append([]string(nil), full[k:]...), full[:k]...)
			s.Eval(ver.Join(x))
			y := make([]string, len(x))
			for i := range x {
				y[len(x)-1-i] = x[i]
			}
			s.Eval(ver.Join(y))
		}
	}
}

// enumV4: every subset of optional metrics (values rotating), plus tokens appended / inserted per subset.
func enumV4(s *SS, plan strPlan) {
	ver := spec.V4
	r := s.R
	nb := ver.NumBase()
	nopt := len(ver.Metrics) - nb
	tokens := append(allLegalElems(), junkTokens(ver)...)
	vjunk := valueJunk(ver)
	total := 1 << nopt
	chunk := 1 << 10
	Parallel(total/chunk, 16, func(ci int) {
		if r.TooMany() {
			return
		}
		var sb strings.Builder
		for set := ci * chunk; set < (ci+1)*chunk; set++ {
			sz := bits.OnesCount(uint(set))
			if !plan.v4AllSets && sz > 4 && sz < 17 {
				continue
			}
			sb.Reset()
			sb.WriteString(ver.Header)
			for i := 0; i < nb; i++ {
				m := ver.Metrics[i]
				sb.WriteByte('/')
				sb.WriteString(m.Abv)
				sb.WriteByte(':')
				sb.WriteString(m.Values[(set+i)%len(m.Values)])
			}
			var cut [32]int // byte offset before each optional element (for insertion)
			ncut := 0
			for i := 0; i < nopt; i++ {
				if set&(1<<i) == 0 {
					continue
				}
				cut[ncut] = sb.Len()
				ncut++
				m := ver.Metrics[nb+i]
				sb.WriteByte('/')
				sb.WriteString(m.Abv)
				sb.WriteByte(':')
				sb.WriteString(m.Values[(set/7+i)%len(m.Values)])
			}
			str := sb.String()
			s.Eval(str)
			// state x token: a rotating slice of the token alphabet appended after this access path,
			// and inserted before a rotating optional element
			for q := 0; q < 3; q++ {
				t := tokens[(set*3+q)%len(tokens)]
				s.Eval(str + "/" + t)
				if ncut > 0 {
					c := cut[(set+q)%ncut]
					s.Eval(str[:c] + "/" + t + str[c:])
				}
			}
			// state x corrupted element: one rotating element of this very vector gets a junk value, and one is deleted
			s.Eval(corruptElem(str, len(ver.Header)+1, set, vjunk))
			s.Eval(dropElem(str, len(ver.Header)+1, set/3))
		}
	})
}

// corruptElem replaces the value of the k-th "/"-separated element of str[from:] by a junk value.
func corruptElem(str string, from, k int, junk []string) string {
	parts := strings.Split(str[from:], "/")
	i := k % len(parts)
	abv, _, _ := strings.Cut(parts[i], ":")
	parts[i] = abv + ":" + junk[(k/len(parts))%len(junk)]
	return str[:from] + strings.Join(parts, "/")
}

// dropElem deletes the k-th element.
func dropElem(str string, from, k int) string {
	parts := strings.Split(str[from:], "/")
	i := k % len(parts)
	parts = append(parts[:i:i], parts[i+1:]...)
	return str[:from] + strings.Join(parts, "/")
}

func strRule(what string) string {
	return "E1 strspace: every generated string is given to all four parsers and judged by the reference grammar (two formulations cross-checked). Generators: (A) every single element-level edit (delete, duplicate, swap any two, move, insert/replace by every token of an alphabet of all legal elements of all versions + junk forms, replace value/abbreviation by every pool entry, truncate, drop prefix, trailing slash) and every single byte-level edit (insert/replace by each of 256 bytes, delete, duplicate, swap, every prefix/suffix) of systematic seeds per version; (B) all pairs of element-level edits from a compact menu on some seeds; (C) language enumerations: v2 strings by group shape, v3 metric subsets in canonical order + all 8! base orders + optional insertions + rotations/reversals, v4 optional-metric subsets with rotating tokens appended/inserted; (D) header matrix. " + what + " distinct = distinct strings (hash-deduplicated in A, B, D; distinct by construction in C)."
}

func strBound(p strPlan) string {
	return fmt.Sprintf("k=1 edits on seeds with %d value rotations; k=2 on %d seed(s)/version; v2 whole language=%v; v3 all 2^22 seen-sets=%v; v4 all 2^21 optional subsets=%v; header edit depth %d", p.seedRots, p.k2Seeds, p.v2Whole, p.v3AllSets, p.v4AllSets, p.headerDepth)
}

// CheckC01 — ParseVector accepts exactly the grammar.
func CheckC01(r *Report) {
	plan := strPlanFor(r.Tier)
	r.Rule = strRule("Oracle: acceptance verdict equals the reference recogniser; non-nil object iff nil error; no panic.")
	RunStrSpace(r, SAccept, plan)
	r.Bound = strBound(plan)
	r.Exhaustive = false
	r.Assumptions = []string{"strings further than 2 edits from every seed/enumerated string are outside the bound", "reference grammar in mc/spec/grammar.go (split/map formulation cross-checked against a regexp / scanner formulation on every string)"}
}

// CheckC06 — a parsed vector means what it says.
func CheckC06(r *Report) {
	plan := strPlanFor(r.Tier)
	r.Rule = strRule("Oracle: for every accepted string, Get(m) equals the value the reference parser extracted for every metric m (not-defined value for omitted optional metrics).")
	s := RunStrSpace(r, SMeaning, plan)
	// volume phase: every canonical string of large full products of metrics is parsed in ONE process and the
	// parsed object compared with the object built by Set (parsers that memoise by a lossy digest of the string
	// are found by the sheer number of distinct equal-length strings)
	vol := volumeParse(r, I40, []int{0, 1, 2, 3, 4, 5, 6, 7, 8, 9, 10, 11, 12, 13, 14, 15}, r.Tier == "thorough")
	vol += volumeParse(r, I31, []int{0, 1, 2, 3, 4, 5, 6, 7, 8, 9, 10, 11, 12, 13}, r.Tier == "thorough")
	vol += volumeParse(r, I30, []int{0, 1, 2, 3, 4, 5, 6, 7, 8, 9, 10, 11, 12, 13}, r.Tier == "thorough")
	vol += volumeParse(r, I20, []int{0, 1, 2, 3, 4, 5, 6, 7, 8, 9, 10, 11, 12, 13}, r.Tier == "thorough")
	r.SetExtra("volume_phase_strings", vol)
	r.States.Add(vol)
	r.Transitions.Add(vol)
	r.Traces.Add(vol)
	r.Evaluations.Store(r.Transitions.Load())
	r.Distinct.Store(s.NAccepted.Load() + vol)
	r.Bound = strBound(plan) + "; volume phase: canonical strings of full products (v4: base x E x CR x IR x AR x MAV; v3: 16,588,800 classes; v2: a 1/8 sub-lattice, all in thorough)"
	r.Exhaustive = plan.v2Whole
	r.Assumptions = []string{"accepted strings outside the enumerations (v3 orders beyond the listed families, v4 value combinations beyond the rotations) are outside the bound"}
}

// CheckC08 — parse-then-serialise yields the canonical form.
func CheckC08(r *Report) {
	plan := strPlanFor(r.Tier)
	r.Rule = strRule("Oracle: for every accepted string, Vector() equals the reference canonical serialisation (spec order, X dropped, v2 group dropped iff all ND); parse-then-serialise of the canonical string is the identity.")
	s := RunStrSpace(r, SCanon, plan)
	// the serialiser side on objects built by Set (every reachable object equals a parse result): canonical spelling
	cop := ObjPlan{T: 2, W: 8, WCap: 1 << 16, Rotations: 2, FullV2: false, Preds: PredCanonical}
	if r.Tier == "thorough" {
		cop = ObjPlan{T: 3, W: 10, WCap: 1 << 20, Rotations: 4, FullV2: false, Preds: PredCanonical}
	}
	st0 := r.States.Load()
	runAllObj(r, cop, 0)
	r.SetExtra("objects_whose_Vector_was_compared_with_the_canonical_spelling", r.States.Load()-st0)
	r.Evaluations.Store(r.Transitions.Load())
	r.Distinct.Store(s.NAccepted.Load())
	r.Bound = strBound(plan)
	r.Exhaustive = plan.v2Whole
	r.Assumptions = []string{"reference canonical serialiser in mc/spec/grammar.go"}
}

// CheckC13 — one version per string.
func CheckC13(r *Report) {
	plan := strPlanFor(r.Tier)
	r.Rule = strRule("Oracle: no string is accepted by two parsers; plus Vector() of every object of the E2 sweeps is accepted by its own version's parser and rejected by the three other parsers.")
	RunStrSpace(r, SOneVer, plan)
	// Vector() of one version against the other parsers, on the E2 sweeps
	op := ObjPlan{T: 2, W: 6, WCap: 1 << 14, Rotations: 2, FullV2: false, Preds: PredForeign}
	if r.Tier == "thorough" {
		op = ObjPlan{T: 3, W: 10, WCap: 1 << 20, Rotations: 4, FullV2: false, Preds: PredForeign}
	}
	st, tr := r.States.Load(), r.Transitions.Load()
	runAllObj(r, op, 0)
	r.SetExtra("objects_whose_Vector_was_offered_to_the_other_parsers", r.States.Load()-st)
	r.Distinct.Store(r.States.Load())
	_ = tr
	r.Evaluations.Store(r.Transitions.Load())
	r.Bound = strBound(plan) + "; " + boundText(op)
	r.Exhaustive = false
	r.Assumptions = []string{"a string accepted by two versions would have to lie within the explored neighbourhoods of valid vectors or the header matrix"}
}

// CheckC18 — documented error values.
func CheckC18(r *Report) {
	plan := strPlanFor(r.Tier)
	r.Rule = strRule("Oracle: every rejected string that the reference model classifies as having exactly one well-defined defect (wrong/missing header; illegal value; v3 unknown / repeated / missing metric; v2/v4 misplaced-repeated-unknown metric; cut short inside a must-be-complete group) must yield the documented error (errors.Is / errors.As incl. Abv); ambiguous strings only need some error (C01). Plus Get/Set error values on the E2 alphabets.")
	s := RunStrSpace(r, SErrors, plan)
	r.Distinct.Store(s.NClassed.Load())
	// Get/Set error values
	op := ObjPlan{T: 2, W: 6, WCap: 1 << 12, Rotations: 1, FullV2: false, Preds: PredIllegal | PredErrKind}
	runAllObj(r, op, 0)
	getSetAlphabet(r, true)
	r.Evaluations.Store(r.Transitions.Load())
	r.Bound = strBound(plan) + "; Get/Set: full abbreviation x value alphabets on 7 states per version"
	r.Exhaustive = false
	r.Assumptions = []string{"classification of single-defect strings by mc/spec/classify.go (repair-based: the string with the defect repaired is valid)"}
}

// volumeParse parses the canonical string of every state of the full product of ms and compares the result
// with the object built through Set. Returns the number of strings.
func volumeParse[T comparable, P Object[T]](r *Report, im *Impl[T, P], ms []int, thorough bool) int64 {
	ver := im.Ver
	dims := FullDims(ver, ms)
	if ver == spec.V2 && !thorough {
		// quick: a sub-lattice of v2 (CR, IR, AR restricted to 2 values each)
		for j := range dims {
			if dims[j].M >= 11 {
				dims[j].Vals = []int8{0, int8(len(ver.Metrics[dims[j].M].Values) - 1)}
			}
		}
	}
	bg := make(spec.Assignment, len(ver.Metrics))
	for i := range bg {
		if !ver.Mandatory(i) {
			bg[i] = int8(ver.NDIndex(i))
		}
	}
	var n Counter
	Iterate(im, dims, bg, 16, func(idx int, a spec.Assignment, o *T) {
		n.Add(idx, 1)
		str := ver.Canon(a)
		p, err := im.Parse(str)
		if err != nil || p == nil || *p != *o {
			obs := fmt.Sprintf("error %v", err)
			if p != nil {
				obs = "object " + im.Describe(*p) + " (Vector() " + P(p).Vector() + ")"
			}
			strc, oc := str, *o
			r.Violation(Case{Kind: "parse", Key: "v" + ver.Name + "/parsed-meaning/differs-from-object-built-by-Set", Expected: "object " + im.Describe(*o), Observed: obs + " on input " + str,
				Args: map[string]any{"input": str, "preds": uint(SMeaning)}},
				func() bool { p2, e2 := im.Parse(strc); return e2 != nil || p2 == nil || *p2 != oc })
		}
	}, func(idx int, a spec.Assignment, why string) {}, r.TooMany)
	return n.Load()
}

// longInputs: every seed padded to lengths around 2^8, 2^9, 2^10, 2^12 and 2^16 with several fillers (a repeated
// legal element, a repeated separator, letters, blanks, NULs), appended, prepended and inserted in the middle;
// plus a valid vector repeated many times and element counts around 14, 15, 16, 32, 64, 256.
func longInputs(s *SS) {
	targets := []int{127, 128, 129, 254, 255, 256, 257, 258, 511, 512, 513, 1023, 1024, 1025, 4095, 4096, 4097, 65535, 65536, 65537}
	type job struct {
		ver  *spec.Version
		base string
		fill string
	}
	var jobs []job
	for _, ver := range spec.Versions {
		a := definedRot(ver, 1)
		min := ver.Join(elemsOf(ver, a, func(i int) bool { return ver.Mandatory(i) }))
		max := ver.Join(elemsOf(ver, a, nil))
		lastOpt := ver.Elem(len(ver.Metrics)-1, int(a[len(a)-1]))
		for _, base := range []string{min, max} {
			for _, fill := range []string{"/" + lastOpt, "/", "A", " ", "\x00", "/" + ver.Elem(0, 0), ":", "/ZZ:N", "\xc3\xa9"} {
				jobs = append(jobs, job{ver, base, fill})
			}
		}
	}
	Parallel(len(jobs), 16, func(i int) {
		j := jobs[i]
		for _, t := range targets {
			if t <= len(j.base) {
				continue
			}
			n := (t - len(j.base)) / len(j.fill)
			pad := strings.Repeat(j.fill, n)
			for _, extra := range []string{"", j.fill[:1]} {
				p := pad + extra
				s.EvalD(j.base + p)
				s.EvalD(p + j.base)
				mid := len(j.base) / 2
				s.EvalD(j.base[:mid] + p + j.base[mid:])
			}
		}
		// tails / heads / infixes of EXACT lengths around the powers of two (a narrow length counter wraps on the
		// number of extra bytes, not on the total)
		for _, tl := range []int{127, 128, 129, 255, 256, 257, 511, 512, 513, 767, 768, 769, 1024, 65535, 65536, 65537} {
			n := tl / len(j.fill)
			pad := strings.Repeat(j.fill, n)
			for len(pad) < tl {
				pad += j.fill[:1]
			}
			pad = pad[:tl]
			s.EvalD(j.base + pad)
			s.EvalD(pad + j.base)
			mid := len(j.base) / 2
			s.EvalD(j.base[:mid] + pad + j.base[mid:])
			if len(j.ver.Header) > 0 {
				s.EvalD(j.ver.Header + pad + j.base[len(j.ver.Header):])
			}
		}
		// many elements: the valid vector's element list repeated, cut at interesting counts
		hdr := j.ver.Header
		body := strings.TrimPrefix(strings.TrimPrefix(j.base, hdr), "/")
		el := strings.Split(body, "/")
		for _, cnt := range []int{13, 14, 15, 16, 17, 31, 32, 33, 63, 64, 65, 255, 256, 257} {
			var x []string
			for len(x) < cnt {
				x = append(x, el...)
			}
			s.EvalD(j.ver.Join(x[:cnt]))
		}
	})
}
