package engine

import (
	"errors"
	"fmt"

	gocvss20 "github.com/pandatix/go-cvss/20"
	gocvss30 "github.com/pandatix/go-cvss/30"
	gocvss31 "github.com/pandatix/go-cvss/31"
	gocvss40 "github.com/pandatix/go-cvss/40"

	"verif/mc/spec"
)

// Object is the constraint satisfied by *CVSS20, *CVSS30, *CVSS31, *CVSS40.
type Object[T any] interface {
	*T
	Get(string) (string, error)
	Set(string, string) error
	Vector() string
}

// Impl binds one package of the code under test to its reference tables.
type Impl[T comparable, P Object[T]] struct {
	Ver    *spec.Version
	Parse  func(string) (*T, error)
	Scores []ScoreFn[T]
	// error identities of the package
	ErrValue error // ErrInvalidMetricValue
	IsBadAbv func(error) (string, bool)
	Describe func(T) string
}

type ScoreFn[T any] struct {
	Name string
	F    func(*T) float64
}

var I20 = &Impl[gocvss20.CVSS20, *gocvss20.CVSS20]{
	Ver:   spec.V2,
	Parse: gocvss20.ParseVector,
	Scores: []ScoreFn[gocvss20.CVSS20]{
		{"BaseScore", func(o *gocvss20.CVSS20) float64 { return o.BaseScore() }},
		{"TemporalScore", func(o *gocvss20.CVSS20) float64 { return o.TemporalScore() }},
		{"EnvironmentalScore", func(o *gocvss20.CVSS20) float64 { return o.EnvironmentalScore() }},
		{"Impact", func(o *gocvss20.CVSS20) float64 { return o.Impact() }},
		{"Exploitability", func(o *gocvss20.CVSS20) float64 { return o.Exploitability() }},
	},
	ErrValue: gocvss20.ErrInvalidMetricValue,
	IsBadAbv: func(err error) (string, bool) {
		var e *gocvss20.ErrInvalidMetric
		if errors.As(err, &e) && e != nil {
			return e.Abv, true
		}
		return "", false
	},
	Describe: func(o gocvss20.CVSS20) string { return fmt.Sprintf("%v", o) },
}

var I30 = &Impl[gocvss30.CVSS30, *gocvss30.CVSS30]{
	Ver:   spec.V30,
	Parse: gocvss30.ParseVector,
	Scores: []ScoreFn[gocvss30.CVSS30]{
		{"BaseScore", func(o *gocvss30.CVSS30) float64 { return o.BaseScore() }},
		{"TemporalScore", func(o *gocvss30.CVSS30) float64 { return o.TemporalScore() }},
		{"EnvironmentalScore", func(o *gocvss30.CVSS30) float64 { return o.EnvironmentalScore() }},
		{"Impact", func(o *gocvss30.CVSS30) float64 { return o.Impact() }},
		{"Exploitability", func(o *gocvss30.CVSS30) float64 { return o.Exploitability() }},
	},
	ErrValue: gocvss30.ErrInvalidMetricValue,
	IsBadAbv: func(err error) (string, bool) {
		var e *gocvss30.ErrInvalidMetric
		if errors.As(err, &e) && e != nil {
			return e.Abv, true
		}
		return "", false
	},
	Describe: func(o gocvss30.CVSS30) string { return fmt.Sprintf("%v", o) },
}

var I31 = &Impl[gocvss31.CVSS31, *gocvss31.CVSS31]{
	Ver:   spec.V31,
	Parse: gocvss31.ParseVector,
	Scores: []ScoreFn[gocvss31.CVSS31]{
		{"BaseScore", func(o *gocvss31.CVSS31) float64 { return o.BaseScore() }},
		{"TemporalScore", func(o *gocvss31.CVSS31) float64 { return o.TemporalScore() }},
		{"EnvironmentalScore", func(o *gocvss31.CVSS31) float64 { return o.EnvironmentalScore() }},
		{"Impact", func(o *gocvss31.CVSS31) float64 { return o.Impact() }},
		{"Exploitability", func(o *gocvss31.CVSS31) float64 { return o.Exploitability() }},
	},
	ErrValue: gocvss31.ErrInvalidMetricValue,
	IsBadAbv: func(err error) (string, bool) {
		var e *gocvss31.ErrInvalidMetric
		if errors.As(err, &e) && e != nil {
			return e.Abv, true
		}
		return "", false
	},
	Describe: func(o gocvss31.CVSS31) string { return fmt.Sprintf("%v", o) },
}

var I40 = &Impl[gocvss40.CVSS40, *gocvss40.CVSS40]{
	Ver:   spec.V4,
	Parse: gocvss40.ParseVector,
	Scores: []ScoreFn[gocvss40.CVSS40]{
		{"Score", func(o *gocvss40.CVSS40) float64 { return o.Score() }},
	},
	ErrValue: gocvss40.ErrInvalidMetricValue,
	IsBadAbv: func(err error) (string, bool) {
		var e *gocvss40.ErrInvalidMetric
		if errors.As(err, &e) && e != nil {
			return e.Abv, true
		}
		return "", false
	},
	Describe: func(o gocvss40.CVSS40) string { return fmt.Sprintf("%v", o) },
}

type CVSS20T = gocvss20.CVSS20
type CVSS30T = gocvss30.CVSS30
type CVSS31T = gocvss31.CVSS31
type CVSS40T = gocvss40.CVSS40
