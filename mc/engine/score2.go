package engine

import (
	"fmt"
	"math"

	gocvss20 "github.com/pandatix/go-cvss/20"

	"verif/mc/spec"
)

// E3 scorespace, CVSS v2.0: all 139,968,000 assignments against the exact model.

func relClose(a, b float64) bool {
	if a == b {
		return true
	}
	d := math.Abs(a - b)
	return d <= 1e-9*math.Max(math.Abs(a), math.Abs(b)) || d <= 1e-12
}

// v2CheckObj compares all five scoring methods of one object with the model.
// onlyFormat: check C11's predicate (finite, one decimal, range) instead of the values.
func v2CheckObj(a spec.Assignment, o *gocvss20.CVSS20) (key, expected, observed string) {
	want := spec.V2Score(a)
	var b, t, e, im, ex float64
	if p := Safely(func() {
		b, t, e = o.BaseScore(), o.TemporalScore(), o.EnvironmentalScore()
		im, ex = o.Impact(), o.Exploitability()
	}); p != nil {
		return "v2.0/score/panic", "no panic", fmt.Sprint(p)
	}
	chk := func(name string, s float64, set spec.TenthSet) (string, string, string) {
		k, ok := score10(s)
		if !ok {
			return "v2.0/" + name + "/not-one-decimal", fmt.Sprintf("one of %v (tenths)", set), fmt.Sprintf("%v", s)
		}
		if !set.Has(k) {
			return "v2.0/" + name + "/wrong-score", fmt.Sprintf("one of %v (tenths)", set), fmt.Sprintf("%.1f", s)
		}
		return "", "", ""
	}
	if k, x, y := chk("BaseScore", b, want.Base); k != "" {
		return k, x, y
	}
	if k, x, y := chk("TemporalScore", t, want.Temporal); k != "" {
		return k, x, y
	}
	if k, x, y := chk("EnvironmentalScore", e, want.Env); k != "" {
		return k, x, y
	}
	if !relClose(im, want.Impact) {
		return "v2.0/Impact/wrong", fmt.Sprintf("%.12g", want.Impact), fmt.Sprintf("%.12g", im)
	}
	if !relClose(ex, want.Expl) {
		return "v2.0/Exploitability/wrong", fmt.Sprintf("%.12g", want.Expl), fmt.Sprintf("%.12g", ex)
	}
	return "", "", ""
}

func allDims(ver *spec.Version) []Dim {
	ms := make([]int, len(ver.Metrics))
	for i := range ms {
		ms[i] = i
	}
	return FullDims(ver, ms)
}

func v2zero() spec.Assignment { return make(spec.Assignment, len(spec.V2.Metrics)) }

// CheckC05 — v2.0 scores equal the guide equations.
func CheckC05(r *Report) {
	ColdStart(r)
	r.Rule = "E3 scorespace: all 139,968,000 v2.0 metric assignments built through Set (odometer), BaseScore/TemporalScore/EnvironmentalScore must lie in the set of conforming tenths of the exact rational evaluation of the guide equations (both neighbours at exact half-way points, sets propagated through the cascaded roundings), Impact/Exploitability within 1e-9 relative of the exact sub-scores; non-trivial = assignment whose environmental score set differs from its base score set"
	r.Bound = "complete: every v2.0 metric assignment"
	var ties, nontrivial, negEnv Counter
	dims2 := allDims(spec.V2)
	Iterate(I20, dims2, v2zero(), 16, func(idx int, a spec.Assignment, o *gocvss20.CVSS20) {
		if key, exp, obs := v2CheckObj(a, o); key != "" {
			iterViolation(r, I20, dims2, v2zero(), 16, idx, a, "v2-score", key, exp, obs+" on "+o.Vector(), nil,
				func(a spec.Assignment, o *gocvss20.CVSS20) string { k, _, _ := v2CheckObj(a, o); return k })
		}
		w := spec.V2Score(a)
		if len(w.Base) > 1 || len(w.Temporal) > 1 || len(w.Env) > 1 {
			ties.Add(idx, 1)
		}
		if len(w.Env) != len(w.Base) || w.Env[0] != w.Base[0] {
			nontrivial.Add(idx, 1)
		}
		if w.Env[0] < 0 {
			negEnv.Add(idx, 1)
		}
	}, iterBad(r, I20, dims2, v2zero(), "v2-score"), r.TooMany)
	n := int64(139968000)
	r.States.Store(n)
	r.Transitions.Store(n * 5)
	r.Traces.Store(n)
	r.Evaluations.Store(n * 5)
	r.Distinct.Store(nontrivial.Load())
	r.SetExtra("assignments_with_an_exact_halfway_value", ties.Load())
	r.SetExtra("assignments_with_negative_environmental_score", negEnv.Load())
	a := spec.Assignment{2, 2, 2, 2, 2, 2, 2, 0, 2, 4, 3, 2, 2, 2}
	w := spec.V2Score(a)
	r.Sample(map[string]any{"vector": spec.V2.Full(a), "model_base_tenths": w.Base, "model_temporal_tenths": w.Temporal, "model_env_tenths": w.Env})
	r.Assumptions = []string{"weights and equations transcribed from the CVSS v2.0 complete guide section 3.2 into mc/spec/score2.go", "objects are built through Set (checked by C07 on the complete v2 space)"}
}

func init() {
	replayers["v2-score"] = func(c *Case) string {
		a, o, err := objForReplay(I20, c)
		if err != nil {
			return err.Error()
		}
		k, e, ob := v2CheckObj(a, &o)
		if k == "" {
			return ""
		}
		return fmt.Sprintf("%s: expected %s; observed %s", k, e, ob)
	}
}
