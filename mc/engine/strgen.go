package engine

import (
	"sort"
	"strings"

	"verif/mc/spec"
)

// ---------- alphabets ----------

type seed struct {
	ver   *spec.Version
	elems []string
}

func (sd seed) String() string { return sd.ver.Join(sd.elems) }

// allLegalElems: every legal "abv:value" of every version (deduplicated).
func allLegalElems() []string {
	set := map[string]bool{}
	for _, v := range spec.Versions {
		for mi, m := range v.Metrics {
			for vi := range m.Values {
				set[v.Elem(mi, vi)] = true
			}
		}
	}
	return sortedKeys(set)
}

func sortedKeys(m map[string]bool) []string {
	out := make([]string, 0, len(m))
	for k := range m {
		out = append(out, k)
	}
	sort.Strings(out)
	return out
}

func title(s string) string {
	if s == "" {
		return s
	}
	return strings.ToUpper(s[:1]) + strings.ToLower(s[1:])
}

// junkTokens: malformed / foreign element tokens derived from the version's own elements.
func junkTokens(ver *spec.Version) []string {
	set := map[string]bool{"": true, ":": true, "/": true, " ": true, "\x00": true, "\xff": true, "ZZ:N": true, "ZZ": true, "CVSS:3.1": true, "CVSS:4.0": true, "CVSS:3.0": true}
	n := len(ver.Metrics)
	for _, mi := range []int{0, 1, n / 3, n / 2, n - 2, n - 1} {
		m := ver.Metrics[mi]
		for _, vi := range []int{0, len(m.Values) - 1} {
			a, v := m.Abv, m.Values[vi]
			for _, t := range []string{
				a, a + ":", ":" + v, a + "::" + v, a + ":" + v + ":" + v, a + "=" + v, a + ";" + v,
				strings.ToLower(a) + ":" + v, a + ":" + strings.ToLower(v), title(a) + ":" + v, a + ":" + title(v),
				strings.ToUpper(a) + ":" + v, a + ":" + strings.ToUpper(v),
				" " + a + ":" + v, a + ":" + v + " ", a + " :" + v, a + ": " + v, "\t" + a + ":" + v, a + ":" + v + "\n",
				a + ":" + v + "\x00", "\x00" + a + ":" + v, a + ":" + v + "\xc3\xa9", a + ":ZZ", a + ":" + v + v, a + a + ":" + v,
				a + ":", a + ":X", a + ":ND", a + ":x", a + ":nd", "M" + a + ":" + v, a + ":" + v + ",",
			} {
				set[t] = true
			}
			// look-alike runes (code point congruent to the legal byte modulo 256 / 65536) and over-long values
			for _, off := range []rune{0x100, 0x10000, 0xFEE0} {
				rv := []rune(v)
				rv[0] += off
				set[a+":"+string(rv)] = true
				ra := []rune(a)
				ra[0] += off
				set[string(ra)+":"+v] = true
			}
			for _, n := range []int{255, 256, 257} {
				set[a+":"+v+strings.Repeat("\x00", n-len(v))] = true
				set[a+":"+v+strings.Repeat(v[:1], n)] = true
				set[a+":"+v+strings.Repeat(" ", n+1-len(v))] = true
			}
			// a value legal for the neighbouring metric only
			nb := ver.Metrics[(mi+1)%n]
			for _, nv := range nb.Values {
				if ver.ValueIndex(mi, nv) < 0 {
					set[a+":"+nv] = true
					break
				}
			}
		}
	}
	return sortedKeys(set)
}

// valueJunk: replacement values offered for every element.
func valueJunk(ver *spec.Version) []string {
	set := map[string]bool{"": true, " ": true, "X": true, "ND": true, "x": true, "nd": true, "\x00": true, "ZZ": true, "0": true}
	for _, v := range spec.Versions {
		for _, m := range v.Metrics {
			for _, val := range m.Values {
				set[val] = true
				set[strings.ToLower(val)] = true
				set[val+" "] = true
			}
		}
	}
	set["CLEAR"] = true
	set["clear"] = true
	set["Cle"] = true
	set["Clearr"] = true
	return sortedKeys(set)
}

// abvJunk: replacement abbreviations offered for every element.
func abvJunk(ver *spec.Version) []string {
	set := map[string]bool{"": true, " ": true, "ZZ": true, "\x00": true}
	for _, v := range spec.Versions {
		for _, m := range v.Metrics {
			set[m.Abv] = true
			set[strings.ToLower(m.Abv)] = true
			set[title(m.Abv)] = true
			set[strings.ToUpper(m.Abv)] = true
			set[m.Abv+" "] = true
			set["M"+m.Abv] = true
		}
	}
	return sortedKeys(set)
}

// ---------- seeds ----------

// rotAssign returns an assignment whose values rotate with rot (every value of every metric occurs for some rot).
func rotAssign(ver *spec.Version, rot int) spec.Assignment {
	a := make(spec.Assignment, len(ver.Metrics))
	for i, m := range ver.Metrics {
		a[i] = int8((rot + i) % len(m.Values))
	}
	return a
}

// definedRot: like rotAssign but optional metrics never take their not-defined value.
func definedRot(ver *spec.Version, rot int) spec.Assignment {
	a := make(spec.Assignment, len(ver.Metrics))
	for i, m := range ver.Metrics {
		if ver.Mandatory(i) {
			a[i] = int8((rot + i) % len(m.Values))
			continue
		}
		nd := ver.NDIndex(i)
		k := (rot + i) % (len(m.Values) - 1)
		if k >= nd {
			k++
		}
		a[i] = int8(k)
	}
	return a
}

// elemsOf lists "abv:value" for the metrics selected by present (all when nil).
func elemsOf(ver *spec.Version, a spec.Assignment, present func(i int) bool) []string {
	var out []string
	for i := range ver.Metrics {
		if present == nil || present(i) {
			out = append(out, ver.Elem(i, int(a[i])))
		}
	}
	return out
}

func seedsFor(ver *spec.Version, rots int) []seed {
	var out []seed
	add := func(e []string) { out = append(out, seed{ver, e}) }
	for rot := 0; rot < rots; rot++ {
		a := definedRot(ver, rot)
		ar := rotAssign(ver, rot) // may contain explicit ND / X
		grp := func(gs ...int) func(int) bool {
			return func(i int) bool {
				for _, g := range gs {
					if ver.Metrics[i].Group == g {
						return true
					}
				}
				return false
			}
		}
		add(elemsOf(ver, a, grp(0))) // minimal
		add(elemsOf(ver, a, nil))    // maximal, everything defined
		add(elemsOf(ver, ar, nil))   // maximal with some explicit not-defined values
		if ver == spec.V2 {
			add(elemsOf(ver, a, grp(0, 1)))
			add(elemsOf(ver, a, grp(0, 2)))
			// all-ND groups written explicitly
			nd := a.Clone()
			for i := range nd {
				if !ver.Mandatory(i) {
					nd[i] = int8(ver.NDIndex(i))
				}
			}
			add(elemsOf(ver, nd, nil))
			continue
		}
		// all optional explicit X
		x := a.Clone()
		for i := range x {
			if !ver.Mandatory(i) {
				x[i] = int8(ver.NDIndex(i))
			}
		}
		add(elemsOf(ver, x, nil))
		// each single optional metric
		if rot == 0 {
			for i := range ver.Metrics {
				if !ver.Mandatory(i) {
					ii := i
					add(elemsOf(ver, a, func(k int) bool { return ver.Mandatory(k) || k == ii }))
				}
			}
		}
		// alternating optional metrics
		add(elemsOf(ver, a, func(k int) bool { return ver.Mandatory(k) || k%2 == rot%2 }))
		if ver.AnyOrd {
			full := elemsOf(ver, a, nil)
			rev := make([]string, len(full))
			for i, e := range full {
				rev[len(full)-1-i] = e
			}
			add(rev)
			// interleaved order
			var il []string
			for i := 0; i < len(full); i += 2 {
				il = append(il, full[len(full)-1-i])
				if i+1 < len(full) {
					il = append(il, full[i])
				}
			}
			// il is a permutation only if lengths work out; rebuild as a true permutation
			perm := make([]string, 0, len(full))
			for i := 0; i < len(full); i++ {
				perm = append(perm, full[(i*7+rot)%len(full)])
			}
			add(perm)
			_ = il
		}
	}
	return out
}

// ---------- edits ----------

func cat(parts ...[]string) []string {
	var out []string
	for _, p := range parts {
		out = append(out, p...)
	}
	return out
}

// elementEdits applies every single element-level edit to the seed.
func elementEdits(sd seed, tokens, vals, abvs []string, emit func(string)) {
	ver, e := sd.ver, sd.elems
	n := len(e)
	j := func(x []string) { emit(ver.Join(x)) }
	// delete, duplicate, truncate, drop prefix
	for i := 0; i < n; i++ {
		j(cat(e[:i], e[i+1:]))
		j(cat(e[:i+1], e[i:]))        // duplicate in place
		j(cat(e, []string{e[i]}))     // duplicate at end
		j(cat([]string{e[i]}, e))     // duplicate at front
		j(e[:i])                      // truncate before i
		j(e[i:])                      // drop prefix
		emit(ver.Join(e[:i+1]) + "/") // trailing slash after a prefix
	}
	emit(ver.Header)
	emit("")
	// swap any two, move
	for i := 0; i < n; i++ {
		for k := i + 1; k < n; k++ {
			x := append([]string(nil), e...)
			x[i], x[k] = x[k], x[i]
			j(x)
		}
		for k := 0; k <= n; k++ {
			if k == i || k == i+1 {
				continue
			}
			// move element i to position k
			x := cat(e[:i], e[i+1:])
			kk := k
			if k > i {
				kk--
			}
			j(cat(x[:kk], []string{e[i]}, x[kk:]))
		}
	}
	// replace / insert any token; also truncated right after the edit
	for i := 0; i <= n; i++ {
		for _, t := range tokens {
			ins := cat(e[:i], []string{t}, e[i:])
			j(ins)
			j(ins[:i+1])
			if i < n {
				rep := cat(e[:i], []string{t}, e[i+1:])
				j(rep)
			}
		}
	}
	// replace value / abbreviation
	for i := 0; i < n; i++ {
		a, v, _ := strings.Cut(e[i], ":")
		for _, nv := range vals {
			j(cat(e[:i], []string{a + ":" + nv}, e[i+1:]))
		}
		for _, na := range abvs {
			j(cat(e[:i], []string{na + ":" + v}, e[i+1:]))
		}
	}
}

// byteEdits applies every single byte-level edit to str.
func byteEdits(str string, emit func(string)) {
	b := []byte(str)
	n := len(b)
	for i := 0; i <= n; i++ {
		emit(string(b[:i])) // every prefix
		emit(string(b[i:])) // every suffix
		for c := 0; c < 256; c++ {
			emit(string(b[:i]) + string([]byte{byte(c)}) + string(b[i:])) // insert
		}
		if i < n {
			emit(string(b[:i]) + string(b[i+1:])) // delete
			emit(string(b[:i+1]) + string(b[i:])) // duplicate
			for c := 0; c < 256; c++ {
				if byte(c) != b[i] {
					emit(string(b[:i]) + string([]byte{byte(c)}) + string(b[i+1:])) // replace
				}
			}
			if i+1 < n {
				x := append([]byte(nil), b...)
				x[i], x[i+1] = x[i+1], x[i]
				emit(string(x))
			}
		}
	}
}

// elementEdits2 applies all PAIRS of element-level edits from a small edit menu (k = 2).
func elementEdits2(sd seed, small []string, emit func(string)) {
	ver, e := sd.ver, sd.elems
	type edit struct {
		pos  int
		kind int // 0 delete, 1 insert tok, 2 replace tok
		tok  string
	}
	var edits []edit
	for i := 0; i <= len(e); i++ {
		if i < len(e) {
			edits = append(edits, edit{i, 0, ""})
		}
		for _, t := range small {
			edits = append(edits, edit{i, 1, t})
			if i < len(e) {
				edits = append(edits, edit{i, 2, t})
			}
		}
	}
	apply := func(x []string, ed edit, shift int) ([]string, int) {
		p := ed.pos + shift
		if p < 0 {
			p = 0
		}
		if p > len(x) {
			p = len(x)
		}
		switch ed.kind {
		case 0:
			if p >= len(x) {
				return x, 0
			}
			return cat(x[:p], x[p+1:]), -1
		case 1:
			return cat(x[:p], []string{ed.tok}, x[p:]), 1
		default:
			if p >= len(x) {
				return x, 0
			}
			return cat(x[:p], []string{ed.tok}, x[p+1:]), 0
		}
	}
	for i, e1 := range edits {
		for _, e2 := range edits[i:] {
			x, sh := apply(e, e1, 0)
			shift := 0
			if e2.pos > e1.pos {
				shift = sh
			}
			y, _ := apply(x, e2, shift)
			emit(ver.Join(y))
		}
	}
}

// smallTokens: compact token menu for k = 2.
func smallTokens(ver *spec.Version) []string {
	set := map[string]bool{"": true, "ZZ:N": true}
	n := len(ver.Metrics)
	for _, mi := range []int{0, n / 2, n - 1} {
		m := ver.Metrics[mi]
		set[ver.Elem(mi, 0)] = true
		set[ver.Elem(mi, len(m.Values)-1)] = true
		set[strings.ToLower(m.Abv)+":"+m.Values[0]] = true
		set[m.Abv+":"+strings.ToLower(m.Values[0])] = true
		set[m.Abv+":"] = true
		set[m.Abv] = true
	}
	nb := ver.NumBase()
	if nb < n {
		set[ver.Elem(nb, 0)] = true
		set[ver.Elem(nb, 1)] = true
	}
	return sortedKeys(set)
}

// ---------- header matrix ----------

func headerVariants() []string {
	set := map[string]bool{"": true}
	alpha := []byte("CVS:340.12/cvs 9A\x00")
	for _, h := range []string{"CVSS:3.0/", "CVSS:3.1/", "CVSS:4.0", "CVSS:4.0/", "CVSS:2.0/", "CVSS:3.0", "CVSS:3.1"} {
		set[h] = true
		set[strings.ToLower(h)] = true
		set[h+h] = true
		set[" "+h] = true
		b := []byte(h)
		var l1 []string
		for i := 0; i <= len(b); i++ {
			l1 = append(l1, string(b[:i]))
			if i < len(b) {
				l1 = append(l1, string(b[:i])+string(b[i+1:]))
			}
			for _, c := range alpha {
				l1 = append(l1, string(b[:i])+string([]byte{c})+string(b[i:]))
				if i < len(b) {
					l1 = append(l1, string(b[:i])+string([]byte{c})+string(b[i+1:]))
				}
			}
		}
		for _, x := range l1 {
			set[x] = true
		}
	}
	return sortedKeys(set)
}
