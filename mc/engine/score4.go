package engine

import (
	"fmt"
	"math"

	gocvss40 "github.com/pandatix/go-cvss/40"

	"verif/mc/spec"
)

// E3 scorespace, CVSS v4.0.

// base-metric abbreviations / modified twins, indexed like spec.V4Class
var v4Base = [spec.V4N]string{"AV", "AC", "AT", "PR", "UI", "VC", "VI", "VA", "SC", "SI", "SA", "E", "CR", "IR", "AR"}
var v4Mod = [spec.V4N]string{"MAV", "MAC", "MAT", "MPR", "MUI", "MVC", "MVI", "MVA", "MSC", "MSI", "MSA", "", "", "", ""}

// V4Repr is one concrete representation of an effective class: for each of the
// 11 overridable metrics, the base value and the Modified value ("X" = not defined);
// for E/CR/IR/AR the literal value (may be "X" when the effective value is the default).
type V4Repr struct {
	Base [11]string
	Mod  [11]string
	ECR  [4]string
	Supp [6]string // S AU R V RE U ("" = leave X)
}

var v4SuppNames = [6]string{"S", "AU", "R", "V", "RE", "U"}

// CanonRepr: base = effective value, Modified = X; SI/SA with effective value S
// need MSI/MSA:S (base set to N); E, CR, IR, AR explicit.
func CanonRepr(c spec.V4Class) (r V4Repr) {
	for i := 0; i < 11; i++ {
		val := spec.V4SevNames[i][c[i]]
		if val == "S" {
			r.Base[i] = "N"
			r.Mod[i] = "S"
		} else {
			r.Base[i] = val
			r.Mod[i] = "X"
		}
	}
	for i := 0; i < 4; i++ {
		r.ECR[i] = spec.V4SevNames[11+i][c[11+i]]
	}
	return
}

func (r *V4Repr) Object() (gocvss40.CVSS40, error) {
	var o gocvss40.CVSS40
	for i := 0; i < 11; i++ {
		if err := o.Set(v4Base[i], r.Base[i]); err != nil {
			return o, fmt.Errorf("Set(%s,%s): %v", v4Base[i], r.Base[i], err)
		}
		if err := o.Set(v4Mod[i], r.Mod[i]); err != nil {
			return o, fmt.Errorf("Set(%s,%s): %v", v4Mod[i], r.Mod[i], err)
		}
	}
	for i := 0; i < 4; i++ {
		if err := o.Set(v4Base[11+i], r.ECR[i]); err != nil {
			return o, fmt.Errorf("Set(%s,%s): %v", v4Base[11+i], r.ECR[i], err)
		}
	}
	for i, s := range r.Supp {
		if s != "" {
			if err := o.Set(v4SuppNames[i], s); err != nil {
				return o, fmt.Errorf("Set(%s,%s): %v", v4SuppNames[i], s, err)
			}
		}
	}
	return o, nil
}

// score10 converts an implementation score to tenths; ok=false when the value is
// not the float64 nearest to k/10 for an integer k.
func score10(s float64) (k int, ok bool) {
	if math.IsNaN(s) || math.IsInf(s, 0) {
		return 0, false
	}
	kf := math.Round(s * 10)
	if kf < -1000 || kf > 1000 {
		return 0, false
	}
	k = int(kf)
	return k, s == float64(k)/10
}

// v4ImplScore runs Score under recover.
func v4ImplScore(o *gocvss40.CVSS40) (s float64, panicked any) {
	panicked = Safely(func() { s = o.Score() })
	return
}

// V4Table holds the implementation's score (tenths) of the canonical
// representative of every effective class (-32768 = malformed / panic).
type V4Table []int16

const v4Bad = int16(-32768)

// v4CheckClass compares the implementation with the exact model on one class. Used by sweep and replay.
func v4CheckClass(c spec.V4Class) (key, expected, observed string, impl10 int16) {
	r := CanonRepr(c)
	o, err := r.Object()
	if err != nil {
		return "v4.0/score/cannot-build", "legal Set calls succeed", err.Error(), v4Bad
	}
	want, tie, eq := spec.V4Score(c)
	s, p := v4ImplScore(&o)
	if p != nil {
		return "v4.0/Score/panic", fmt.Sprintf("%.1f", float64(want)/10), fmt.Sprintf("panic: %v on %s", p, o.Vector()), v4Bad
	}
	k, ok := score10(s)
	if !ok {
		return "v4.0/Score/not-one-decimal", fmt.Sprintf("%.1f", float64(want)/10), fmt.Sprintf("%v on %s", s, o.Vector()), v4Bad
	}
	if k != want {
		kind := "wrong-score"
		if tie && k == want-1 {
			kind = "tie-rounded-down"
		} else if want == 0 || k == 0 {
			kind = "zero-rule"
		}
		return "v4.0/Score/" + kind, fmt.Sprintf("%.1f (MacroVector %v, exact tie=%v)", float64(want)/10, eq, tie), fmt.Sprintf("%.1f on %s", s, o.Vector()), int16(k)
	}
	return "", "", "", int16(k)
}

// SweepV4 enumerates all 15,116,544 effective classes (or the sub-lattice selected by keep).
func SweepV4(r *Report, prop string, table V4Table, report bool) {
	n := spec.V4NumClasses
	chunk := 1 << 14
	nch := (n + chunk - 1) / chunk
	var mvSeen [270 * 4]bool
	_ = mvSeen
	Parallel(nch, 16, func(ci int) {
		lo, hi := ci*chunk, (ci+1)*chunk
		if hi > n {
			hi = n
		}
		var ties, nontrivial int64
		if r.TooMany() {
			return
		}
		for idx := lo; idx < hi; idx++ {
			c := spec.V4ClassFromIndex(idx)
			key, exp, obs, k := v4CheckClass(c)
			if table != nil {
				table[idx] = k
			}
			if key != "" && report {
				cc := c
				r.Violation(Case{Kind: "v4-class", Key: key, Expected: exp, Observed: obs,
					Args: map[string]any{"class": c.String(), "index": idx}},
					func() bool { k2, _, _, _ := v4CheckClass(cc); return k2 != "" })
			}
			_, tie, _ := spec.V4Score(c)
			if tie {
				ties++
			}
			if k != 0 {
				nontrivial++
			}
		}
		r.States.Add(int64(hi - lo))
		r.Transitions.Add(int64(hi - lo))
		r.Traces.Add(int64(hi - lo))
		r.AddExtra("v4_exact_ties", ties)
		r.Distinct.Add(nontrivial)
	})
}

func init() {
	replayers["v4-class"] = func(c *Case) string {
		if err := spec.V4Init(); err != nil {
			return "model init: " + err.Error()
		}
		idx := int(c.Args["index"].(float64))
		k, e, o, _ := v4CheckClass(spec.V4ClassFromIndex(idx))
		if k == "" {
			return ""
		}
		return fmt.Sprintf("%s: expected %s; observed %s", k, e, o)
	}
}

// CheckC04 — v4.0 score equals the MacroVector algorithm.
func CheckC04(r *Report) {
	ColdStart(r)
	if err := spec.V4Init(); err != nil {
		r.Note("MODEL ERROR: %v", err)
		r.NotExhaustive("model start-up checks failed; nothing decided")
		return
	}
	r.Rule = "E3 scorespace: all 15,116,544 effective classes (severity-index tuples of the 15 scoring metrics) built as canonical objects through Set, Score() compared with the exact integer model (EQ predicates from the specification, highest-severity vectors and depths derived as Pareto maxima / severity spread, frozen 270-entry MacroVector table, exact half-up rounding); non-trivial = class with non-zero score"
	r.Bound = "complete: every effective class in canonical representation, hence all 270 MacroVectors; plus all-overridden/supplemental representations of every class and single deviations on a sub-lattice (all classes in thorough); deeper representation bounds in C10"
	r.SetExtra("derived_model_tables", spec.V4Derived())
	SweepV4(r, "C04", nil, true)
	// lifting (shared with C10): all-overridden + supplemental representations of every class, and every single
	// deviation on a sub-lattice (all classes in thorough)
	sweepV4AllOverridden(r, r.Tier == "thorough", nil)
	if r.Tier == "thorough" {
		sweepV4Lift(r, 1, nil, nil)
	} else {
		sweepV4Lift(r, 1, func(c spec.V4Class) bool {
			return diag9(c) && c[spec.V4AC] == c[spec.V4AT] && c[spec.V4PR] == c[spec.V4UI]
		}, nil)
	}
	mv := map[[6]int]bool{}
	for idx := 0; idx < spec.V4NumClasses; idx += 1 {
		mv[spec.V4MacroVector(spec.V4ClassFromIndex(idx))] = true
		if len(mv) == 270 {
			break
		}
	}
	r.SetExtra("macrovectors_covered", len(mv))
	r.Evaluations.Store(r.Transitions.Load())
	c := spec.V4ClassFromIndex(7654321)
	w, tie, eq := spec.V4Score(c)
	ro := CanonRepr(c)
	o, _ := ro.Object()
	r.Sample(map[string]any{"class": c.String(), "vector": o.Vector(), "macrovector": eq, "model_score": float64(w) / 10, "tie": tie, "impl_score": o.Score()})
	r.Assumptions = []string{"MacroVector lookup table frozen from an independent transcription of FIRST's cvss_lookup.js (claircore toolkit in the module cache)", "objects are built through Set (checked by C07)"}
}
