package engine

import (
	"errors"
	"fmt"
	"strings"
	"sync/atomic"

	"verif/mc/spec"
)

// edit1 returns all strings at byte-edit distance <= 1 from w over the alphabet.
func edit1(w string, alpha []byte) []string {
	set := map[string]bool{w: true}
	b := []byte(w)
	for i := 0; i <= len(b); i++ {
		for _, c := range alpha {
			set[string(b[:i])+string([]byte{c})+string(b[i:])] = true
			if i < len(b) {
				set[string(b[:i])+string([]byte{c})+string(b[i+1:])] = true
			}
		}
		if i < len(b) {
			set[string(b[:i])+string(b[i+1:])] = true
		}
	}
	return sortedKeys(set)
}

var c09Alpha = []byte("ACEIMNPRSTUVXLHDacimnprsuvxlh :/\x00.0_-YGOFWB")

// c09Alphabets builds the abbreviation and value alphabets of C09 for a version.
func c09Alphabets(ver *spec.Version) (abvs, vals []string) {
	as := map[string]bool{"": true, " ": true, "\x00": true, strings.Repeat("A", 1024): true}
	vs := map[string]bool{"": true, " ": true, "\x00": true, strings.Repeat("N", 1024): true}
	for _, v := range spec.Versions {
		for _, m := range v.Metrics {
			for _, x := range []string{m.Abv, strings.ToLower(m.Abv), strings.ToUpper(m.Abv), title(m.Abv), m.Abv + " ", " " + m.Abv} {
				as[x] = true
			}
			for _, val := range m.Values {
				for _, x := range []string{val, strings.ToLower(val), strings.ToUpper(val), title(val), val + " ", " " + val} {
					vs[x] = true
				}
			}
		}
	}
	// input-shape variants of the version's own abbreviations and values: look-alike runes whose code point is
	// congruent to the legal byte modulo 2^8 / 2^16, and legal text padded to lengths around the powers of two
	shape := func(w string, into map[string]bool) {
		if w == "" {
			return
		}
		for _, off := range []rune{0x100, 0x200, 0x300, 0x10000, 0xFEE0} {
			r := []rune(w)
			for i := range r {
				x := append([]rune(nil), r...)
				x[i] = r[i] + off
				into[string(x)] = true
			}
			all := make([]rune, len(r))
			for i := range r {
				all[i] = r[i] + off
			}
			into[string(all)] = true
		}
		for _, tl := range []int{255, 256, 257, 258, 511, 512, 513, 65535, 65536, 65537} {
			for _, fill := range []string{"\x00", " ", w[:1], "A"} {
				for _, total := range []int{tl, tl + len(w), tl + 1} {
					if total > len(w) {
						into[w+strings.Repeat(fill, total-len(w))] = true
					}
				}
			}
		}
	}
	for _, m := range ver.Metrics {
		shape(m.Abv, as)
		for _, val := range m.Values {
			shape(val, vs)
		}
	}
	for _, m := range ver.Metrics {
		for _, x := range edit1(m.Abv, c09Alpha) {
			as[x] = true
		}
		for _, val := range m.Values {
			for _, x := range edit1(val, c09Alpha) {
				vs[x] = true
			}
		}
	}
	return sortedKeys(as), sortedKeys(vs)
}

// alphabetSweep offers every (abbreviation, value) pair to Set and Get on the given states.
func alphabetSweep[T comparable, P Object[T]](s *OS[T, P], states []spec.Assignment, checkErrKinds bool) {
	ver := s.I.Ver
	abvs, vals := c09Alphabets(ver)
	s.R.SetExtra("v"+ver.Name+"_abbreviation_alphabet", len(abvs))
	s.R.SetExtra("v"+ver.Name+"_value_alphabet", len(vals))
	for _, st := range states {
		o0, err := s.Build(st)
		if err != nil {
			s.report(st, nil, PredIllegal, "build", err.Error())
			continue
		}
		st := st
		var nbad atomic.Int64
		Parallel(len(abvs), 16, func(ai int) {
			if s.R.TooMany() || nbad.Load() > 300 {
				return // enough evidence from this state (every report re-executes the case: keep floods cheap)
			}
			abv := abvs[ai]
			mi := ver.Index(abv)
			var trans int64
			// Get
			got, gerr := P(&o0).Get(abv)
			trans++
			if mi < 0 {
				if gerr == nil {
					s.reportGet(st, abv, fmt.Sprintf("Get returned (%q, %v)", got, gerr))
				} else if a2, ok := s.I.IsBadAbv(gerr); checkErrKinds && (!ok || a2 != abv) {
					s.reportGet(st, abv, fmt.Sprintf("%T %v", gerr, gerr))
				}
			} else if gerr != nil || got != ver.Metrics[mi].Values[st[mi]] {
				s.reportGet(st, abv, fmt.Sprintf("Get on a known metric returned (%q, %v)", got, gerr))
			}
			for _, val := range vals {
				o := o0
				err := P(&o).Set(abv, val)
				trans++
				bad := false
				switch {
				case mi < 0:
					a2, ok := "", false
					if err != nil {
						a2, ok = s.I.IsBadAbv(err)
					}
					bad = err == nil || o != o0 || (checkErrKinds && (!ok || a2 != abv))
				case ver.ValueIndex(mi, val) < 0:
					bad = err == nil || o != o0 || (checkErrKinds && !errors.Is(err, s.I.ErrValue))
				default:
					if err != nil {
						bad = true
					} else {
						g, ge := P(&o).Get(abv)
						bad = ge != nil || g != val
					}
				}
				if bad {
					if nbad.Add(1) > 300 {
						break
					}
					pr := PredIllegal
					if checkErrKinds {
						pr |= PredErrKind
					}
					s.report(st, []string{"Set", abv, val}, pr, "alphabet", fmt.Sprintf("err=%v", err))
				}
			}
			s.R.Transitions.Add(trans)
		})
		s.R.States.Add(1)
		s.R.Traces.Add(int64(len(abvs)))
	}
}

func c09States[T comparable, P Object[T]](s *OS[T, P]) []spec.Assignment {
	ver := s.I.Ver
	st := s.Backgrounds()
	for rot := 0; rot < 4; rot++ {
		st = append(st, rotAssign(ver, rot+1))
	}
	return st
}

// getSetAlphabet: errKinds additionally requires the documented error values (C18); C09 only requires a refusal.
func getSetAlphabet(r *Report, errKinds bool) {
	s20, s30, s31, s40 := NewOS(I20, r), NewOS(I30, r), NewOS(I31, r), NewOS(I40, r)
	alphabetSweep(s20, c09States(s20), errKinds)
	alphabetSweep(s30, c09States(s30), errKinds)
	alphabetSweep(s31, c09States(s31), errKinds)
	alphabetSweep(s40, c09States(s40), errKinds)
}

// CheckC09 — only specification metrics/values are accepted or produced.
func CheckC09(r *Report) {
	plan := objPlan(r.Tier, PredWellFormed|PredIllegal)
	r.Rule = "E2 objspace: (1) the full abbreviation x value alphabet (all abbreviations/values of all versions, case variants, every string at byte-edit distance 1 from an abbreviation/value of the version over a 45-byte alphabet, empty, blank, NUL, 1 KiB) offered to Get and Set on 7 states per version: accepted iff table member (case-sensitive), refusal leaves the object ==; (2) on every state of the E2 sweeps: every Get legal and non-empty, Vector() equal to the reference canonical form (hence grammatical), every scoring method returns without panic and without mutating the receiver; distinct = distinct states + distinct (abbreviation,value) pairs"
	getSetAlphabet(r, false)
	pairs := r.Transitions.Load()
	runAllObj(r, plan, 2)
	r.Bound = "alphabets: see *_alphabet sizes; " + boundText(plan)
	r.Distinct.Store(r.States.Load() + pairs/7)
	r.Evaluations.Store(r.Transitions.Load())
	r.Exhaustive = false
	r.Assumptions = []string{"strings further than one byte edit from every legal abbreviation/value are represented by the case/blank/foreign-version variants only", "v3/v4 object states bounded as in C07"}
}
