package engine

import (
	"encoding/json"
	"fmt"
	"os"
	"os/exec"
	"strconv"
	"sync"

	"verif/mc/spec"
)

// ColdFirst: every scoring method of every version as the FIRST scoring call of its own fresh process.
//
// ColdStart (in the checking process itself) can give the empty call history to one method per version only:
// whichever it calls first. Here one process is spawned per (version, scoring method); it builds the
// distinguished objects with Set, calls that one method first, then compares all methods of the same object
// with the exact model, then calls the method again. The first result must equal the later one, and nothing
// may panic. (A lazily built table that only some of the methods initialise shows up here and nowhere else.)

type coldFirstFinding struct {
	Key, Expected, Observed, Vector, Version string
}

func coldFirstRun[T comparable, P Object[T]](im *Impl[T, P], k, startAt int, check func(a spec.Assignment, o *T) (string, string, string)) (out []coldFirstFinding) {
	s := &OS[T, P]{I: im, R: NewReport("x", "quick", 0)}
	var z T
	s.Zero, _ = s.ReadAll(z)
	if s.Zero == nil || k < 0 || k >= len(im.Scores) {
		return nil
	}
	objs := []T{z}
	for _, bg := range s.Backgrounds()[1:] {
		if o, err := s.Build(bg); err == nil {
			objs = append(objs, o)
		}
	}
	for rot := 1; rot < 4; rot++ {
		if o, err := s.Build(definedRot(im.Ver, rot)); err == nil {
			objs = append(objs, o)
		}
	}
	// which object gets the very first call: the list is rotated (the zero value is degenerate for most methods)
	startAt %= len(objs)
	objs = append(append([]T(nil), objs[startAt:]...), objs[:startAt]...)
	sf := im.Scores[k]
	tag := "v" + im.Ver.Name + "/" + sf.Name
	for i, o := range objs {
		a, err := s.ReadAll(o)
		if err != nil {
			continue
		}
		oc := o
		vec := P(&oc).Vector()
		var cold, warm float64
		if p := Safely(func() { c := o; cold = sf.F(&c) }); p != nil {
			out = append(out, coldFirstFinding{tag + "/panic", "no panic", fmt.Sprintf("%v", p), vec, im.Ver.Name})
			continue
		}
		c2 := o
		if key, exp, obs := check(a, &c2); key != "" {
			out = append(out, coldFirstFinding{key, exp, obs, vec, im.Ver.Name})
		}
		if p := Safely(func() { c := o; warm = sf.F(&c) }); p != nil {
			out = append(out, coldFirstFinding{tag + "/panic", "no panic", fmt.Sprintf("%v (second call)", p), vec, im.Ver.Name})
			continue
		}
		if cold != warm {
			what := "first scoring call of the process"
			if i > 0 {
				what = "first call of this method on this object (only this method had been called in the process)"
			}
			out = append(out, coldFirstFinding{tag + "/differs", fmt.Sprintf("%v (what it returns once the other scoring methods have been called)", warm), fmt.Sprintf("%v as the %s", cold, what), vec, im.Ver.Name})
		}
	}
	return out
}

// ColdFirstWorker is the entry point of one fresh process.
func ColdFirstWorker(ver string, k, startAt int) {
	var out []coldFirstFinding
	switch ver {
	case "2.0":
		out = coldFirstRun(I20, k, startAt, func(a spec.Assignment, o *CVSS20T) (string, string, string) { return v2CheckObj(a, o) })
	case "3.0":
		out = coldFirstRun(I30, k, startAt, func(a spec.Assignment, o *CVSS30T) (string, string, string) { return v3CheckObj(I30, a, o) })
	case "3.1":
		out = coldFirstRun(I31, k, startAt, func(a spec.Assignment, o *CVSS31T) (string, string, string) { return v3CheckObj(I31, a, o) })
	case "4.0":
		// the v4 model is only initialised after the cold call (it does not touch the implementation)
		out = coldFirstRun(I40, k, startAt, func(a spec.Assignment, o *CVSS40T) (string, string, string) {
			if err := spec.V4Init(); err != nil {
				return "", "", ""
			}
			want, _, _ := spec.V4Score(v4ClassOf(a))
			sc, p := v4ImplScore(o)
			if q, ok := score10(sc); p != nil || !ok || q != want {
				return "v4.0/Score/wrong-score", fmt.Sprintf("%.1f", float64(want)/10), fmt.Sprintf("%v (panic=%v)", sc, p)
			}
			return "", "", ""
		})
	}
	if out == nil {
		out = []coldFirstFinding{}
	}
	json.NewEncoder(os.Stdout).Encode(out)
}

// ColdFirst spawns the processes and reports their findings under the given tier-independent keys.
func ColdFirst(r *Report) {
	exe, err := os.Executable()
	if err != nil {
		r.Note("cold-first: cannot locate own executable: %v", err)
		return
	}
	type job struct {
		ver string
		k   int
		at  int
	}
	var jobs []job
	for _, v := range []struct {
		ver string
		n   int
	}{{"4.0", len(I40.Scores)}, {"3.1", len(I31.Scores)}, {"3.0", len(I30.Scores)}, {"2.0", len(I20.Scores)}} {
		for k := 0; k < v.n; k++ {
			for _, at := range []int{0, 1, 3, 4} { // zero value, all-last, and two fully defined objects first
				jobs = append(jobs, job{v.ver, k, at})
			}
		}
	}
	res := make([][]coldFirstFinding, len(jobs))
	fail := make([]error, len(jobs))
	var wg sync.WaitGroup
	for i, j := range jobs {
		wg.Add(1)
		go func(i int, j job) {
			defer wg.Done()
			b, e := exec.Command(exe, "coldfirst", j.ver, strconv.Itoa(j.k), strconv.Itoa(j.at)).Output()
			if e != nil {
				fail[i] = e
				return
			}
			fail[i] = json.Unmarshal(b, &res[i])
		}(i, j)
	}
	wg.Wait()
	n := 0
	for i := range jobs {
		if fail[i] != nil {
			r.Note("cold-first process (v%s method %d) failed: %v", jobs[i].ver, jobs[i].k, fail[i])
			r.NotExhaustive("a cold-first process failed to run")
			continue
		}
		n++
		for _, f := range res[i] {
			r.Violation(Case{Kind: "cold-first", Key: f.Key + "@first-call-of-process", Expected: f.Expected,
				Observed: f.Observed + " on " + f.Vector + " in a process where this scoring method is called before any other",
				Args: map[string]any{"version": jobs[i].ver, "method": jobs[i].k, "start_at": jobs[i].at, "vector": f.Vector}}, nil)
		}
	}
	r.SetExtra("fresh_processes_each_calling_one_scoring_method_first", n)
	r.Transitions.Add(int64(n * 7 * 6))
}

func init() {
	replayers["cold-first"] = func(c *Case) string {
		exe, err := os.Executable()
		if err != nil {
			return ""
		}
		ver, _ := c.Args["version"].(string)
		k, _ := c.Args["method"].(float64)
		at, _ := c.Args["start_at"].(float64)
		b, e := exec.Command(exe, "coldfirst", ver, strconv.Itoa(int(k)), strconv.Itoa(int(at))).Output()
		var out []coldFirstFinding
		if e != nil || json.Unmarshal(b, &out) != nil {
			return ""
		}
		for _, f := range out {
			if f.Key+"@first-call-of-process" == c.Key {
				return f.Observed + " on " + f.Vector
			}
		}
		if len(out) > 0 {
			return out[0].Key + ": " + out[0].Observed + " on " + out[0].Vector
		}
		return ""
	}
}
