package engine

import (
	"encoding/json"
	"fmt"
	"os"
	"os/exec"

	gocvss40 "github.com/pandatix/go-cvss/40"

	"verif/mc/spec"
)

// C14 "cold vs warm" differential (runs in a FRESH process, single goroutine, deterministic order):
//  1. every method of distinguished objects (zero value, extremes, a few parsed vectors) is called first
//     (empty history) and the results are recorded;
//  2. a long deterministic history follows: the scoring tables of sub-lattices of every version are computed
//     in ascending order (T1) and again in descending order (T2);
//  3. T1 must equal T2 entry by entry, and the distinguished calls are repeated and must give what they gave cold.
// Any difference is a result that depends on the call history.

type coldOut struct {
	ColdCalls    int      `json:"cold_calls"`
	TableEntries int      `json:"table_entries"`
	Violations   []string `json:"violations"`
	Keys         []string `json:"keys"`
}

func describe[T comparable, P Object[T]](im *Impl[T, P], o T) []string {
	var out []string
	oo := o
	Safely(func() { out = append(out, "Vector="+P(&oo).Vector()) })
	for _, m := range im.Ver.Metrics {
		v, err := P(&oo).Get(m.Abv)
		out = append(out, fmt.Sprintf("Get(%s)=%s,%v", m.Abv, v, err))
	}
	for _, sf := range im.Scores {
		var s float64
		p := Safely(func() { s = sf.F(&oo) })
		out = append(out, fmt.Sprintf("%s=%v,%v", sf.Name, s, p))
	}
	if oo != o {
		out = append(out, "RECEIVER-MUTATED")
	}
	return out
}

func distinguished[T comparable, P Object[T]](im *Impl[T, P]) []T {
	var z T
	objs := []T{z}
	s := &OS[T, P]{I: im, R: NewReport("x", "quick", 0)}
	s.Zero, _ = s.ReadAll(z)
	if s.Zero == nil {
		return objs
	}
	for _, bg := range s.Backgrounds()[1:] {
		if o, err := s.Build(bg); err == nil {
			objs = append(objs, o)
		}
	}
	for rot := 0; rot < 3; rot++ {
		if o, err := im.Parse(im.Ver.Canon(definedRot(im.Ver, rot))); err == nil && o != nil {
			objs = append(objs, *o)
		}
	}
	return objs
}

// C14Cold is the entry point of the fresh process.
func C14Cold(tier string) {
	var out coldOut
	add := func(key, what string) {
		if len(out.Violations) < 20 {
			out.Violations = append(out.Violations, what)
			out.Keys = append(out.Keys, key)
		}
	}
	// 1. cold calls (v4 zero value first)
	d40, d31, d30, d20 := distinguished(I40), distinguished(I31), distinguished(I30), distinguished(I20)
	var cold [][]string
	for _, o := range d40 {
		oo := o
		cold = append(cold, append(describe(I40, o), "Nomenclature="+oo.Nomenclature()))
	}
	for _, o := range d31 {
		cold = append(cold, describe(I31, o))
	}
	for _, o := range d30 {
		cold = append(cold, describe(I30, o))
	}
	for _, o := range d20 {
		cold = append(cold, describe(I20, o))
	}
	out.ColdCalls = len(cold)
	// 2. long deterministic history: tables in ascending then descending order
	spec.V4Init()
	stride := 7
	if tier == "thorough" {
		stride = 1
	}
	n4 := spec.V4NumClasses / 81 // E and CR/IR/AR fixed to their first values: all 186,624 base classes
	t1 := make([]float64, n4)
	score4 := func(i int) float64 {
		c := spec.V4ClassFromIndex(i)
		rp := CanonRepr(c)
		o, _ := rp.Object()
		s, _ := v4ImplScore(&o)
		return s
	}
	for i := 0; i < n4; i += stride {
		t1[i] = score4(i)
	}
	for i := ((n4 - 1) / stride) * stride; i >= 0; i -= stride {
		if s := score4(i); s != t1[i] {
			add("v4.0/Score/order-dependent", fmt.Sprintf("v4 Score of class %s was %v in the ascending pass and %v in the descending pass", spec.V4ClassFromIndex(i), t1[i], s))
			break
		}
		out.TableEntries++
	}
	table3 := func(tag string, build func(a spec.Assignment) []float64, ver *spec.Version) {
		dims := FullDims(ver, []int{0, 1, 2, 3, 4, 5, 6, 7, 8, 9, 10})
		n := 1
		for _, d := range dims {
			n *= len(d.Vals)
		}
		tab := make([][]float64, n)
		at := func(i int) spec.Assignment {
			a := v3bg(ver)
			x := i
			for _, d := range dims {
				a[d.M] = d.Vals[x%len(d.Vals)]
				x /= len(d.Vals)
			}
			return a
		}
		for i := 0; i < n; i += stride {
			tab[i] = build(at(i))
		}
		for i := ((n - 1) / stride) * stride; i >= 0; i -= stride {
			got := build(at(i))
			for k := range got {
				if got[k] != tab[i][k] {
					add(tag+"/order-dependent", fmt.Sprintf("%s score %d of %s was %v in the ascending pass and %v in the descending pass", tag, k, ver.Canon(at(i)), tab[i][k], got[k]))
					return
				}
			}
			out.TableEntries++
		}
	}
	table3("v3.1", func(a spec.Assignment) []float64 {
		o, _ := (&OS[CVSS31T, *CVSS31T]{I: I31}).Build(a)
		return []float64{o.BaseScore(), o.TemporalScore(), o.EnvironmentalScore()}
	}, spec.V31)
	table3("v3.0", func(a spec.Assignment) []float64 {
		o, _ := (&OS[CVSS30T, *CVSS30T]{I: I30}).Build(a)
		return []float64{o.BaseScore(), o.TemporalScore(), o.EnvironmentalScore()}
	}, spec.V30)
	{
		ver := spec.V2
		dims := FullDims(ver, []int{0, 1, 2, 3, 4, 5, 6, 7, 8})
		n := 72900
		tab := make([][3]float64, n)
		at := func(i int) spec.Assignment {
			a := make(spec.Assignment, 14)
			for k := 6; k < 14; k++ {
				a[k] = int8(ver.NDIndex(k))
			}
			x := i
			for _, d := range dims {
				a[d.M] = d.Vals[x%len(d.Vals)]
				x /= len(d.Vals)
			}
			return a
		}
		sc := func(i int) [3]float64 {
			o, _ := (&OS[CVSS20T, *CVSS20T]{I: I20}).Build(at(i))
			// also exercise the parser / serialiser in the history
			if p, err := I20.Parse(o.Vector()); err == nil {
				o = *p
			}
			return [3]float64{o.BaseScore(), o.TemporalScore(), o.EnvironmentalScore()}
		}
		for i := 0; i < n; i += stride {
			tab[i] = sc(i)
		}
		for i := ((n - 1) / stride) * stride; i >= 0; i -= stride {
			if got := sc(i); got != tab[i] {
				add("v2.0/order-dependent", fmt.Sprintf("v2 scores of %s were %v in the ascending pass and %v in the descending pass", ver.Canon(at(i)), tab[i], got))
				break
			}
			out.TableEntries++
		}
	}
	// 3. the distinguished calls again (warm)
	var warm [][]string
	for _, o := range d40 {
		oo := o
		warm = append(warm, append(describe(I40, o), "Nomenclature="+oo.Nomenclature()))
	}
	for _, o := range d31 {
		warm = append(warm, describe(I31, o))
	}
	for _, o := range d30 {
		warm = append(warm, describe(I30, o))
	}
	for _, o := range d20 {
		warm = append(warm, describe(I20, o))
	}
	for i := range cold {
		for k := range cold[i] {
			if cold[i][k] != warm[i][k] {
				add("cold-vs-warm/"+trunc(cold[i][k], 12), fmt.Sprintf("object %s: as the first call of the process %s, after a long history %s", cold[i][0], cold[i][k], warm[i][k]))
				break
			}
		}
	}
	json.NewEncoder(os.Stdout).Encode(out)
	_ = gocvss40.Rating
}

// runC14Cold spawns the fresh process and reports its findings.
func runC14Cold(r *Report) map[string]any {
	exe, err := os.Executable()
	if err != nil {
		r.NotExhaustive("cold/warm differential not run: " + err.Error())
		return nil
	}
	b, err := exec.Command(exe, "c14cold", r.Tier).Output()
	var out coldOut
	if err != nil || json.Unmarshal(b, &out) != nil {
		r.Note("cold/warm differential process failed: %v", err)
		r.NotExhaustive("cold/warm differential failed to run")
		return nil
	}
	for i, v := range out.Violations {
		r.Violation(Case{Kind: "cold-warm", Key: "history-dependence/" + out.Keys[i], Expected: "the same result whatever was called before", Observed: v, Args: map[string]any{"tier": r.Tier}}, nil)
	}
	return map[string]any{"cold_first_calls_on_distinguished_objects": out.ColdCalls, "table_entries_compared_ascending_vs_descending": out.TableEntries}
}

func init() {
	replayers["cold-warm"] = func(c *Case) string {
		exe, err := os.Executable()
		if err != nil {
			return err.Error()
		}
		b, err := exec.Command(exe, "c14cold", argStr(c, "tier")).Output()
		var out coldOut
		if err != nil || json.Unmarshal(b, &out) != nil {
			return "cold/warm process failed"
		}
		if len(out.Violations) > 0 {
			return out.Violations[0]
		}
		return ""
	}
}
