package engine

import (
	"encoding/json"
	"fmt"
	"os"
	"os/exec"

	gocvss40 "github.com/pandatix/go-cvss/40"

	"verif/mc/spec"
)

// C14 "cold vs warm" differential (runs in a FRESH process, single goroutine, deterministic order):
//  1. every method of distinguished objects (zero value, extremes, a few parsed vectors) is called first
//     (empty history) and the results are recorded;
//  2. a long deterministic history follows: the scoring tables of sub-lattices of every version are computed
//     in ascending order (T1) and again in descending order (T2);
//  3. T1 must equal T2 entry by entry, and the distinguished calls are repeated and must give what they gave cold.
// Any difference is a result that depends on the call history.

func describe[T comparable, P Object[T]](im *Impl[T, P], o T) []string {
	var out []string
	oo := o
	Safely(func() { out = append(out, "Vector="+P(&oo).Vector()) })
	for _, m := range im.Ver.Metrics {
		v, err := P(&oo).Get(m.Abv)
		out = append(out, fmt.Sprintf("Get(%s)=%s,%v", m.Abv, v, err))
	}
	for _, sf := range im.Scores {
		var s float64
		p := Safely(func() { s = sf.F(&oo) })
		out = append(out, fmt.Sprintf("%s=%v,%v", sf.Name, s, p))
	}
	if oo != o {
		out = append(out, "RECEIVER-MUTATED")
	}
	return out
}

func distinguished[T comparable, P Object[T]](im *Impl[T, P]) []T {
	var z T
	objs := []T{z}
	s := &OS[T, P]{I: im, R: NewReport("x", "quick", 0)}
	s.Zero, _ = s.ReadAll(z)
	if s.Zero == nil {
		return objs
	}
	for _, bg := range s.Backgrounds()[1:] {
		if o, err := s.Build(bg); err == nil {
			objs = append(objs, o)
		}
	}
	for rot := 0; rot < 3; rot++ {
		if o, err := im.Parse(im.Ver.Canon(definedRot(im.Ver, rot))); err == nil && o != nil {
			objs = append(objs, *o)
		}
	}
	return objs
}

// coldTables is what one fresh process reports.
type coldTables struct {
	Order string       `json:"order"`
	Cold  [][]string   `json:"cold"` // distinguished calls made first
	Warm  [][]string   `json:"warm"` // the same calls after the long history
	V4    []float32    `json:"v4"`   // Score over the v4 sub-lattice
	V31   [][3]float32 `json:"v31"`
	V30   [][3]float32 `json:"v30"`
	V2    [][3]float32 `json:"v2"`
	// single-Set neighbourhoods of a family of objects spread over the WHOLE space of each version (any
	// representation), scored right after one another: index = ((object, metric, value), scoring method)
	N4  []float32 `json:"n4"`
	N31 []float32 `json:"n31"`
	N30 []float32 `json:"n30"`
	N2  []float32 `json:"n2"`
}

// coldFamily: F assignments over all metrics of the version, spread over the full product by a fixed
// multiplicative sequence (deterministic: every process builds the same family).
func coldFamily(ver *spec.Version, F int) []spec.Assignment {
	fam := make([]spec.Assignment, F)
	for j := range fam {
		x := uint64(j+1) * 0x9E3779B97F4A7C15
		a := make(spec.Assignment, len(ver.Metrics))
		for i, m := range ver.Metrics {
			a[i] = int8(x % uint64(len(m.Values)))
			x /= uint64(len(m.Values))
			if x < 64 {
				x = x*0x9E3779B97F4A7C15 + uint64(i)
			}
		}
		fam[j] = a
	}
	return fam
}

func coldFamilySize(tier string) int {
	if tier == "thorough" {
		return 16384
	}
	return 1024
}

// neighbourTable scores, for every object r of the family, every object that differs from r in the value of one
// metric, in the order r, metric, value (ascending or descending): consecutive calls are on objects that differ
// in one metric only, which is where a memo with a lossy key hands out the neighbour's result. The table layout
// does not depend on the order of traversal.
func neighbourTable[T comparable, P Object[T]](im *Impl[T, P], fam []spec.Assignment, order string) []float32 {
	ver := im.Ver
	per := 0
	off := make([]int, len(ver.Metrics))
	for i, m := range ver.Metrics {
		off[i] = per
		per += len(m.Values)
	}
	ns := len(im.Scores)
	tab := make([]float32, len(fam)*per*ns)
	s := &OS[T, P]{I: im}
	seq := func(n int) []int {
		x := make([]int, n)
		for i := range x {
			if order == "desc" {
				x[i] = n - 1 - i
			} else {
				x[i] = i
			}
		}
		return x
	}
	for _, r := range seq(len(fam)) {
		base, err := s.Build(fam[r])
		for _, mi := range seq(len(ver.Metrics)) {
			m := ver.Metrics[mi]
			for _, vi := range seq(len(m.Values)) {
				o := base
				at := ((r*per)+off[mi]+vi) * ns
				if err != nil || P(&o).Set(m.Abv, m.Values[vi]) != nil {
					for k := 0; k < ns; k++ {
						tab[at+k] = -998
					}
					continue
				}
				for k, sf := range im.Scores {
					var sc float64
					if p := Safely(func() { sc = sf.F(&o) }); p != nil {
						sc = -999
					}
					tab[at+k] = float32(sc)
				}
			}
		}
	}
	return tab
}

// neighbourWhat describes entry i of a neighbour table.
func neighbourWhat[T comparable, P Object[T]](im *Impl[T, P], fam []spec.Assignment, i int) string {
	ver := im.Ver
	per := 0
	for _, m := range ver.Metrics {
		per += len(m.Values)
	}
	ns := len(im.Scores)
	k := i % ns
	e := i / ns
	r, x := e/per, e%per
	for mi, m := range ver.Metrics {
		if x < len(m.Values) {
			a := fam[r].Clone()
			a[mi] = int8(x)
			return fmt.Sprintf("%s of %s (scored right after its neighbours that differ in %s only)", im.Scores[k].Name, ver.Full(a), m.Abv)
		}
		x -= len(m.Values)
	}
	return fmt.Sprintf("entry %d", i)
}

// v4 sub-lattice of the cold/warm runs: all 186,624 base classes x E in {A,U} x CR=IR=AR in {H,L}.
func coldV4Class(i int) spec.V4Class {
	c := spec.V4ClassFromIndex(i % 186624)
	k := i / 186624
	if k&1 == 1 {
		c[spec.V4E] = 2
	}
	if k&2 == 2 {
		c[spec.V4CR], c[spec.V4IR], c[spec.V4AR] = 2, 2, 2
	}
	return c
}

const coldV4N = 186624 * 4

// C14Cold is the entry point of ONE fresh process: distinguished calls first (empty history), then the score
// tables in the given order (asc / desc), then the distinguished calls again. Single goroutine.
func C14Cold(tier, order string) {
	var out coldTables
	out.Order = order
	d40, d31, d30, d20 := distinguished(I40), distinguished(I31), distinguished(I30), distinguished(I20)
	calls := func() [][]string {
		var c [][]string
		for _, o := range d40 {
			oo := o
			c = append(c, append(describe(I40, o), "Nomenclature="+oo.Nomenclature()))
		}
		for _, o := range d31 {
			c = append(c, describe(I31, o))
		}
		for _, o := range d30 {
			c = append(c, describe(I30, o))
		}
		for _, o := range d20 {
			c = append(c, describe(I20, o))
		}
		return c
	}
	out.Cold = calls()
	spec.V4Init()
	stride := 3
	if tier == "thorough" {
		stride = 1
	}
	each := func(n int, f func(i int)) {
		if order == "desc" {
			for i := ((n - 1) / stride) * stride; i >= 0; i -= stride {
				f(i)
			}
			return
		}
		for i := 0; i < n; i += stride {
			f(i)
		}
	}
	out.V4 = make([]float32, coldV4N)
	each(coldV4N, func(i int) {
		rp := CanonRepr(coldV4Class(i))
		o, _ := rp.Object()
		s, p := v4ImplScore(&o)
		if p != nil {
			s = -999
		}
		out.V4[i] = float32(s)
	})
	v3tab := func(ver *spec.Version, build func(a spec.Assignment) [3]float32) [][3]float32 {
		dims := FullDims(ver, []int{0, 1, 2, 3, 4, 5, 6, 7, 8, 9, 10})
		n := 259200
		tab := make([][3]float32, n)
		each(n, func(i int) {
			a := v3bg(ver)
			x := i
			for _, d := range dims {
				a[d.M] = d.Vals[x%len(d.Vals)]
				x /= len(d.Vals)
			}
			tab[i] = build(a)
		})
		return tab
	}
	safe3 := func(f func() [3]float32) (r [3]float32) {
		if p := Safely(func() { r = f() }); p != nil {
			return [3]float32{-999, -999, -999}
		}
		return
	}
	out.V31 = v3tab(spec.V31, func(a spec.Assignment) [3]float32 {
		o, _ := (&OS[CVSS31T, *CVSS31T]{I: I31}).Build(a)
		return safe3(func() [3]float32 {
			return [3]float32{float32(o.BaseScore()), float32(o.TemporalScore()), float32(o.EnvironmentalScore())}
		})
	})
	out.V30 = v3tab(spec.V30, func(a spec.Assignment) [3]float32 {
		o, _ := (&OS[CVSS30T, *CVSS30T]{I: I30}).Build(a)
		return safe3(func() [3]float32 {
			return [3]float32{float32(o.BaseScore()), float32(o.TemporalScore()), float32(o.EnvironmentalScore())}
		})
	})
	{
		ver := spec.V2
		dims := FullDims(ver, []int{0, 1, 2, 3, 4, 5, 6, 7, 8})
		out.V2 = make([][3]float32, 72900)
		each(72900, func(i int) {
			a := make(spec.Assignment, 14)
			for k := 6; k < 14; k++ {
				a[k] = int8(ver.NDIndex(k))
			}
			x := i
			for _, d := range dims {
				a[d.M] = d.Vals[x%len(d.Vals)]
				x /= len(d.Vals)
			}
			o, _ := (&OS[CVSS20T, *CVSS20T]{I: I20}).Build(a)
			if p, err := I20.Parse(o.Vector()); err == nil {
				o = *p
			}
			out.V2[i] = safe3(func() [3]float32 {
				return [3]float32{float32(o.BaseScore()), float32(o.TemporalScore()), float32(o.EnvironmentalScore())}
			})
		})
	}
	F := coldFamilySize(tier)
	out.N4 = neighbourTable(I40, coldFamily(spec.V4, F), order)
	out.N31 = neighbourTable(I31, coldFamily(spec.V31, F), order)
	out.N30 = neighbourTable(I30, coldFamily(spec.V30, F), order)
	out.N2 = neighbourTable(I20, coldFamily(spec.V2, F), order)
	out.Warm = calls()
	json.NewEncoder(os.Stdout).Encode(out)
	_ = gocvss40.Rating
}

// runColdProcesses runs the two fresh processes (ascending / descending order) and returns their reports.
func runColdProcesses(tier string) (asc, desc *coldTables, err error) {
	exe, err := os.Executable()
	if err != nil {
		return nil, nil, err
	}
	res := make([]*coldTables, 2)
	errs := make([]error, 2)
	done := make(chan int, 2)
	for i, ord := range []string{"asc", "desc"} {
		go func(i int, ord string) {
			defer func() { done <- i }()
			b, e := exec.Command(exe, "c14cold", tier, ord).Output()
			if e != nil {
				errs[i] = e
				return
			}
			var t coldTables
			if e := json.Unmarshal(b, &t); e != nil {
				errs[i] = e
				return
			}
			res[i] = &t
		}(i, ord)
	}
	<-done
	<-done
	for _, e := range errs {
		if e != nil {
			return nil, nil, e
		}
	}
	return res[0], res[1], nil
}

// coldFindings compares the two processes: cold vs warm calls inside each, and the tables of one against the other.
func coldFindings(asc, desc *coldTables) (keys, whats []string, compared int) {
	add := func(k, w string) {
		if len(keys) < 20 {
			keys = append(keys, k)
			whats = append(whats, w)
		}
	}
	for _, t := range []*coldTables{asc, desc} {
		for i := range t.Cold {
			for k := range t.Cold[i] {
				if t.Cold[i][k] != t.Warm[i][k] {
					add("cold-vs-warm/"+trunc(t.Cold[i][k], 12), fmt.Sprintf("object %s: as one of the first calls of the process %s, after a long history %s", t.Cold[i][0], t.Cold[i][k], t.Warm[i][k]))
					break
				}
			}
		}
	}
	for i := range asc.Cold {
		for k := range asc.Cold[i] {
			if asc.Cold[i][k] != desc.Cold[i][k] {
				add("process-dependent", fmt.Sprintf("object %s: %s in one process, %s in another", asc.Cold[i][0], asc.Cold[i][k], desc.Cold[i][k]))
				break
			}
		}
	}
	for i := range asc.V4 {
		compared++
		if asc.V4[i] != desc.V4[i] {
			rp := CanonRepr(coldV4Class(i))
			o, _ := rp.Object()
			add("v4.0/Score/order-dependent", fmt.Sprintf("Score(%s) = %v when the classes are scored in ascending order from a fresh process, %v in descending order", o.Vector(), asc.V4[i], desc.V4[i]))
			break
		}
	}
	cmp3 := func(tag string, a, b [][3]float32) {
		for i := range a {
			compared++
			if a[i] != b[i] {
				add(tag+"/order-dependent", fmt.Sprintf("%s scores of table entry %d are %v when scored in ascending order from a fresh process and %v in descending order", tag, i, a[i], b[i]))
				return
			}
		}
	}
	cmp3("v3.1", asc.V31, desc.V31)
	cmp3("v3.0", asc.V30, desc.V30)
	cmp3("v2.0", asc.V2, desc.V2)
	cmpN := func(tag string, a, b []float32, what func(i int) string) {
		if len(a) != len(b) {
			add(tag+"/neighbour-table-size", fmt.Sprintf("%d entries in one process, %d in the other", len(a), len(b)))
			return
		}
		for i := range a {
			compared++
			if a[i] != b[i] {
				add(tag+"/depends-on-the-neighbour-scored-before", fmt.Sprintf("%s = %v when the single-metric neighbourhoods are scored in ascending order from a fresh process, %v in descending order", what(i), a[i], b[i]))
				return
			}
		}
	}
	F := len(asc.N4)
	_ = F
	fam := func(ver *spec.Version, n, scores int) []spec.Assignment {
		per := 0
		for _, m := range ver.Metrics {
			per += len(m.Values)
		}
		if per*scores == 0 {
			return nil
		}
		return coldFamily(ver, n/(per*scores))
	}
	f4, f31, f30, f2 := fam(spec.V4, len(asc.N4), len(I40.Scores)), fam(spec.V31, len(asc.N31), len(I31.Scores)), fam(spec.V30, len(asc.N30), len(I30.Scores)), fam(spec.V2, len(asc.N2), len(I20.Scores))
	cmpN("v4.0", asc.N4, desc.N4, func(i int) string { return neighbourWhat(I40, f4, i) })
	cmpN("v3.1", asc.N31, desc.N31, func(i int) string { return neighbourWhat(I31, f31, i) })
	cmpN("v3.0", asc.N30, desc.N30, func(i int) string { return neighbourWhat(I30, f30, i) })
	cmpN("v2.0", asc.N2, desc.N2, func(i int) string { return neighbourWhat(I20, f2, i) })
	return
}

// runC14Cold spawns the fresh processes and reports their findings.
func runC14Cold(r *Report) map[string]any {
	asc, desc, err := runColdProcesses(r.Tier)
	if err != nil {
		r.Note("cold/warm differential processes failed: %v", err)
		r.NotExhaustive("cold/warm differential failed to run")
		return nil
	}
	keys, whats, compared := coldFindings(asc, desc)
	for i := range keys {
		r.Violation(Case{Kind: "cold-warm", Key: "history-dependence/" + keys[i], Expected: "the same result whatever was called before", Observed: whats[i], Args: map[string]any{"tier": r.Tier}}, nil)
	}
	return map[string]any{"cold_first_calls_on_distinguished_objects_per_process": len(asc.Cold), "table_entries_compared_between_ascending_and_descending_fresh_processes": compared}
}

// coldFormatCheck applies C11's predicate to every table entry of both fresh processes.
func coldFormatCheck(r *Report) {
	asc, desc, err := runColdProcesses(r.Tier)
	if err != nil {
		r.Note("fresh-process tables not available: %v", err)
		return
	}
	for _, t := range []*coldTables{asc, desc} {
		bad := func(ver string, s float32, what string) {
			r.Violation(Case{Kind: "cold-format", Key: "v" + ver + "/score/malformed@fresh-process-" + t.Order, Expected: "finite one-decimal score in range",
				Observed: fmt.Sprintf("%v for %s when the table is computed in %s order from a fresh process", s, what, t.Order), Args: map[string]any{"tier": r.Tier}}, nil)
		}
		for i, s := range t.V4 {
			if s == 0 && i%3 != 0 && r.Tier != "thorough" {
				continue // not computed in quick (stride 3)
			}
			if why := wellFormedScore(float64(float32(s)), 0, 100); why != "" && !closeTenth(s) {
				rp := CanonRepr(coldV4Class(i))
				o, _ := rp.Object()
				bad("4.0", s, o.Vector())
				break
			}
			r.Transitions.Add(1)
		}
		for _, tab := range []struct {
			ver string
			t   [][3]float32
		}{{"3.1", t.V31}, {"3.0", t.V30}} {
			for i, e := range tab.t {
				for _, s := range e {
					if !closeTenth(s) || s < 0 || s > 10 {
						bad(tab.ver, s, fmt.Sprintf("table entry %d", i))
					}
				}
				r.Transitions.Add(3)
			}
		}
	}
}

// closeTenth: float32 image of a one-decimal score.
func closeTenth(s float32) bool {
	k := float32(int(s*10 + 0.5))
	return s >= 0 && float32(k/10) == s
}

func init() {
	replayers["cold-format"] = func(c *Case) string {
		tmp := NewReport(c.Property, argStr(c, "tier"), 0)
		coldFormatCheck(tmp)
		tmp.mu.Lock()
		defer tmp.mu.Unlock()
		if len(tmp.violations) > 0 {
			return tmp.violations[0].Observed
		}
		return ""
	}
	replayers["cold-warm"] = func(c *Case) string {
		asc, desc, err := runColdProcesses(argStr(c, "tier"))
		if err != nil {
			return "cold/warm processes failed: " + err.Error()
		}
		if _, whats, _ := coldFindings(asc, desc); len(whats) > 0 {
			return whats[0]
		}
		return ""
	}
}
