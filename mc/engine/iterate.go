package engine

import (
	"fmt"
	"sync"

	"verif/mc/spec"
)

// Iterate enumerates the full product of dims over background bg with an
// odometer (one Set per digit change) and calls fn for every state with the
// model assignment and the implementation object. At the end of every chunk
// the object is re-read through Get and must equal the model (otherwise
// bad is called once for that chunk).
func Iterate[T comparable, P Object[T]](im *Impl[T, P], dims []Dim, bg spec.Assignment, workers int,
	fn func(idx int, a spec.Assignment, o *T), bad func(idx int, a spec.Assignment, why string), stop func() bool, judgeUnmodelled ...bool) {
	judgeAnyway := len(judgeUnmodelled) > 0 && judgeUnmodelled[0]
	ver := im.Ver
	n := 1
	for _, d := range dims {
		n *= len(d.Vals)
	}
	chunk := iterChunk(n, workers)
	nch := (n + chunk - 1) / chunk
	Parallel(nch, workers, func(c int) {
		lo, hi := c*chunk, (c+1)*chunk
		if hi > n {
			hi = n
		}
		if stop != nil && stop() {
			return
		}
		dg := make([]int, len(dims))
		x := lo
		a := bg.Clone()
		for j, d := range dims {
			dg[j] = x % len(d.Vals)
			x /= len(d.Vals)
			a[d.M] = d.Vals[dg[j]]
		}
		var o T
		for mi, m := range ver.Metrics {
			if err := P(&o).Set(m.Abv, m.Values[a[mi]]); err != nil {
				bad(lo, a, "Set("+m.Abv+","+m.Values[a[mi]]+") failed: "+err.Error())
				return
			}
		}
		for idx := lo; idx < hi; idx++ {
			// the object reached by the Set path must read back as the model state; if it does not (a Set/Get
			// fault, C07's finding) the state is not judged against the model, unless the caller's predicate
			// does not need the model (judgeAnyway: "every reachable object ...")
			modelled := true
			for mi, m := range ver.Metrics {
				if v, err := P(&o).Get(m.Abv); err != nil || v != m.Values[a[mi]] {
					modelled = false
					bad(idx, a, "Get("+m.Abv+") = "+v+", last value Set was "+m.Values[a[mi]])
					break
				}
			}
			if modelled || judgeAnyway {
				// fn gets a copy: a judged method that writes into its receiver must not disturb the sweep
				c := o
				fn(idx, a, &c)
			}
			if idx+1 == hi {
				break
			}
			for j := 0; j < len(dims); j++ {
				dg[j]++
				if dg[j] == len(dims[j].Vals) {
					dg[j] = 0
				}
				d := dims[j]
				a[d.M] = d.Vals[dg[j]]
				m := ver.Metrics[d.M]
				if err := P(&o).Set(m.Abv, m.Values[a[d.M]]); err != nil {
					bad(idx+1, a, "Set("+m.Abv+","+m.Values[a[d.M]]+") failed: "+err.Error())
					return
				}
				if dg[j] != 0 {
					break
				}
			}
		}
	})
}

func iterChunk(n, workers int) int {
	chunk := 1 << 13
	if n < chunk*workers && workers > 1 {
		chunk = (n + workers - 1) / workers
	}
	if chunk < 1 {
		chunk = 1
	}
	return chunk
}

// PathOps returns the exact Set sequence by which Iterate(im, dims, bg, workers, ...) reaches state idx:
// the canonical build of the chunk's first state followed by the odometer steps. It makes a violation
// found on an Iterate path replayable even when it depends on the history of Set calls.
func PathOps[T comparable, P Object[T]](im *Impl[T, P], dims []Dim, bg spec.Assignment, workers int, idx int) [][]string {
	ver := im.Ver
	n := 1
	for _, d := range dims {
		n *= len(d.Vals)
	}
	chunk := iterChunk(n, workers)
	lo := (idx / chunk) * chunk
	dg := make([]int, len(dims))
	x := lo
	a := bg.Clone()
	for j, d := range dims {
		dg[j] = x % len(d.Vals)
		x /= len(d.Vals)
		a[d.M] = d.Vals[dg[j]]
	}
	var ops [][]string
	for mi, m := range ver.Metrics {
		ops = append(ops, []string{"Set", m.Abv, m.Values[a[mi]]})
	}
	for i := lo; i < idx; i++ {
		for j := 0; j < len(dims); j++ {
			dg[j]++
			if dg[j] == len(dims[j].Vals) {
				dg[j] = 0
			}
			d := dims[j]
			m := ver.Metrics[d.M]
			ops = append(ops, []string{"Set", m.Abv, m.Values[d.Vals[dg[j]]]})
			if dg[j] != 0 {
				break
			}
		}
	}
	return ops
}

// ObjFromOps executes a Set sequence on the zero value.
func ObjFromOps[T comparable, P Object[T]](ops [][]string) T {
	var o T
	for _, op := range ops {
		P(&o).Set(op[1], op[2])
	}
	return o
}

// minimiseOps shortens a Set path that still makes pred fail: first tries the canonical build alone
// (history independent faults), then drops leading odometer steps greedily.
func minimiseOps[T comparable, P Object[T]](ops [][]string, nBuild int, pred func(o *T) bool) [][]string {
	// last value of each metric = canonical form
	last := map[string]string{}
	var order []string
	for _, op := range ops {
		if _, ok := last[op[1]]; !ok {
			order = append(order, op[1])
		}
		last[op[1]] = op[2]
	}
	var canon [][]string
	for _, abv := range order {
		canon = append(canon, []string{"Set", abv, last[abv]})
	}
	o := ObjFromOps[T, P](canon)
	if pred(&o) {
		return canon
	}
	// keep the build, bisect the number of odometer steps dropped from the front is unsound in general;
	// instead keep only the last k steps for growing k
	steps := ops[nBuild:]
	for k := 1; k < len(steps); k *= 2 {
		cand := append(append([][]string(nil), ops[:nBuild]...), steps[len(steps)-k:]...)
		o := ObjFromOps[T, P](cand)
		if pred(&o) {
			return cand
		}
	}
	return ops
}

// iterViolation records a violation found by an Iterate sweep at state idx. The confirmation re-executes
// the exact Set path that led there (so history-dependent faults reproduce), and the stored case holds a
// minimised Set sequence.
func iterViolation[T comparable, P Object[T]](r *Report, im *Impl[T, P], dims []Dim, bg spec.Assignment, workers, idx int,
	a spec.Assignment, kind, key, exp, obs string, extra map[string]any, pred func(a spec.Assignment, o *T) string) {
	ver := im.Ver
	ac := a.Clone()
	args := map[string]any{"version": ver.Name, "vector": ver.Full(a)}
	for k, v := range extra {
		args[k] = v
	}
	c := Case{Kind: kind, Key: key, Expected: exp, Observed: obs, Args: args}
	r.Violation(c, func() bool {
		ops := PathOps(im, dims, bg, workers, idx)
		o := ObjFromOps[T, P](ops)
		if pred(ac, &o) == "" {
			return false
		}
		if _, done := args["ops"]; !done {
			min := minimiseOps[T, P](ops, len(ver.Metrics), func(o *T) bool { return pred(ac, o) != "" })
			args["ops"] = min
			args["ops_note"] = fmt.Sprintf("Set sequence from the zero value (%d calls, minimised from the %d-call sweep path)", len(min), len(ops))
		}
		return true
	})
}

// objForReplay rebuilds the object of a stored case: by its Set sequence when present, else canonically from the vector.
func objForReplay[T comparable, P Object[T]](im *Impl[T, P], c *Case) (spec.Assignment, T, error) {
	var zero T
	a, ok := im.Ver.Parse(argStr(c, "vector"))
	if !ok {
		return nil, zero, fmt.Errorf("replay vector not in the language")
	}
	if ops := argOps(c); len(ops) > 0 {
		o := ObjFromOps[T, P](ops)
		for mi, m := range im.Ver.Metrics {
			if v, err := P(&o).Get(m.Abv); err != nil || v != m.Values[a[mi]] {
				return a, o, fmt.Errorf("object built by the stored Set sequence does not read back: Get(%q) = %q, %v; last value Set was %q", m.Abv, v, err, m.Values[a[mi]])
			}
		}
		return a, o, nil
	}
	o, err := NewOS(im, NewReport("x", "quick", 0)).Build(a)
	return a, o, err
}

// iterBad builds the `bad` callback of an Iterate sweep: the object reached by the sweep's Set path does not
// read back as the model assignment. Reported with the exact (minimised) Set path.
func iterBad[T comparable, P Object[T]](r *Report, im *Impl[T, P], dims []Dim, bg spec.Assignment, kind string) func(idx int, a spec.Assignment, why string) {
	ver := im.Ver
	pred := func(a spec.Assignment, o *T) string {
		for mi, m := range ver.Metrics {
			v, err := P(o).Get(m.Abv)
			if err != nil || v != m.Values[a[mi]] {
				return "ill-formed"
			}
		}
		return ""
	}
	_ = pred
	var once sync.Once
	return func(idx int, a spec.Assignment, why string) {
		r.AddExtra("v"+ver.Name+"_states_not_judged_because_the_object_built_by_Set_does_not_read_back", 1)
		once.Do(func() {
			r.NotExhaustive("v" + ver.Name + ": some states were not judged: the object built by Set does not read back as the values set (" + why + " at " + ver.Full(a) + "); that is property C07's finding, not this check's")
		})
	}
}
