package engine

import (
	"verif/mc/spec"
)

// Iterate enumerates the full product of dims over background bg with an
// odometer (one Set per digit change) and calls fn for every state with the
// model assignment and the implementation object. At the end of every chunk
// the object is re-read through Get and must equal the model (otherwise
// bad is called once for that chunk).
func Iterate[T comparable, P Object[T]](im *Impl[T, P], dims []Dim, bg spec.Assignment, workers int,
	fn func(idx int, a spec.Assignment, o *T), bad func(a spec.Assignment, why string), stop func() bool) {
	ver := im.Ver
	n := 1
	for _, d := range dims {
		n *= len(d.Vals)
	}
	chunk := 1 << 13
	if n < chunk*workers && workers > 1 {
		chunk = (n + workers - 1) / workers
	}
	nch := (n + chunk - 1) / chunk
	Parallel(nch, workers, func(c int) {
		lo, hi := c*chunk, (c+1)*chunk
		if hi > n {
			hi = n
		}
		if stop != nil && stop() {
			return
		}
		dg := make([]int, len(dims))
		x := lo
		a := bg.Clone()
		for j, d := range dims {
			dg[j] = x % len(d.Vals)
			x /= len(d.Vals)
			a[d.M] = d.Vals[dg[j]]
		}
		var o T
		for mi, m := range ver.Metrics {
			if err := P(&o).Set(m.Abv, m.Values[a[mi]]); err != nil {
				bad(a, "Set("+m.Abv+","+m.Values[a[mi]]+") failed: "+err.Error())
				return
			}
		}
		for idx := lo; idx < hi; idx++ {
			fn(idx, a, &o)
			if idx+1 == hi {
				break
			}
			for j := 0; j < len(dims); j++ {
				dg[j]++
				if dg[j] == len(dims[j].Vals) {
					dg[j] = 0
				}
				d := dims[j]
				a[d.M] = d.Vals[dg[j]]
				m := ver.Metrics[d.M]
				if err := P(&o).Set(m.Abv, m.Values[a[d.M]]); err != nil {
					bad(a, "Set("+m.Abv+","+m.Values[a[d.M]]+") failed: "+err.Error())
					return
				}
				if dg[j] != 0 {
					break
				}
			}
		}
		for mi, m := range ver.Metrics {
			v, err := P(&o).Get(m.Abv)
			if err != nil || v != m.Values[a[mi]] {
				bad(a, "after odometer walk Get("+m.Abv+") = "+v+", model "+m.Values[a[mi]])
				return
			}
		}
	})
}
