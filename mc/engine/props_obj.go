package engine

import (
	gocvss20 "github.com/pandatix/go-cvss/20"
	gocvss30 "github.com/pandatix/go-cvss/30"
	gocvss31 "github.com/pandatix/go-cvss/31"
	gocvss40 "github.com/pandatix/go-cvss/40"
)

func accept20(s string) bool { o, err := gocvss20.ParseVector(s); return err == nil && o != nil }
func accept30(s string) bool { o, err := gocvss30.ParseVector(s); return err == nil && o != nil }
func accept31(s string) bool { o, err := gocvss31.ParseVector(s); return err == nil && o != nil }
func accept40(s string) bool { o, err := gocvss40.ParseVector(s); return err == nil && o != nil }

func objPlan(tier string, preds Pred) ObjPlan {
	if tier == "thorough" {
		return ObjPlan{T: 4, W: 12, WCap: 1 << 22, Rotations: 4, FullV2: true, Preds: preds}
	}
	return ObjPlan{T: 3, W: 10, WCap: 1 << 18, Rotations: 3, FullV2: false, Preds: preds}
}

func runAllObj(r *Report, plan ObjPlan, bfsDepth int) {
	s20 := NewOS(I20, r)
	s30 := NewOS(I30, r)
	s31 := NewOS(I31, r)
	s40 := NewOS(I40, r)
	s20.Foreign = []func(string) bool{accept30, accept31, accept40}
	s30.Foreign = []func(string) bool{accept20, accept31, accept40}
	s31.Foreign = []func(string) bool{accept20, accept30, accept40}
	s40.Foreign = []func(string) bool{accept20, accept30, accept31}
	RunObjSweeps(s20, plan)
	RunObjSweeps(s30, plan)
	RunObjSweeps(s31, plan)
	RunObjSweeps(s40, plan)
	if bfsDepth > 0 {
		HistoryBFS(s20, bfsDepth, plan.Preds)
		HistoryBFS(s30, bfsDepth, plan.Preds)
		HistoryBFS(s31, bfsDepth, plan.Preds)
		HistoryBFS(s40, bfsDepth, plan.Preds)
	}
}

// C02 — Vector() then ParseVector gives back the same object.
func CheckC02(r *Report) {
	plan := objPlan(r.Tier, PredRoundTrip)
	r.Rule = "E2 objspace: full product sweeps of free metrics over 3 backgrounds (v2 complete in thorough; t-wise subsets, storage-order windows, presence subsets for v3/v4); each state: Get-all equals model, Vector()==reference canonical string, ParseVector(Vector())==object and equal on every Get; a state is non-trivial/distinct = one distinct metric assignment"
	runAllObj(r, plan, 2)
	r.Bound = boundText(plan)
	r.Distinct.Store(r.States.Load())
	r.Evaluations.Store(r.Transitions.Load())
	r.Exhaustive = plan.FullV2
	r.Assumptions = []string{"reachability of exactly the canonical objects is established by the closure check of C07 over the same sweeps", "v3/v4: joint faults needing more than t free metrics outside one storage window are outside the bound"}
}

// C07 — Set changes one metric and nothing else.
func CheckC07(r *Report) {
	plan := objPlan(r.Tier, PredSetClosure|PredIllegal)
	r.Rule = "E2 objspace: for every state of the sweeps and every Set(m,v) with m free (all legal v, rotating illegal values, unknown abbreviations): successor == table entry of the model successor (closure), failed Set leaves object ==, error kinds; table entries verified by Get-all; distinct = distinct metric assignment"
	depth := 2
	if r.Tier == "thorough" {
		depth = 3
	}
	runAllObj(r, plan, depth)
	r.Bound = boundText(plan)
	r.Distinct.Store(r.States.Load())
	r.Evaluations.Store(r.Transitions.Load())
	r.Exhaustive = plan.FullV2
	r.Assumptions = []string{"v3/v4 coverage is t-wise + storage windows + presence subsets over 3 backgrounds, not the full product"}
}
