package engine

import (
	"bufio"
	"crypto/sha256"
	"encoding/hex"
	"encoding/json"
	"fmt"
	"os"
	"path/filepath"
	"sort"
	"strings"
	"sync"
	"sync/atomic"
	"time"
)

// VerifDir is the root of the verification tree (set by main).
var VerifDir = "/verif"

// OutDir, when set, receives evidence/ and replays/ instead of VerifDir (development aid).
var OutDir = ""

func outDir() string {
	if OutDir != "" {
		return OutDir
	}
	return VerifDir
}

// Case is a replayable artefact: everything needed to re-run one explored
// case without the explorer.
type Case struct {
	Property string         `json:"property"`
	Kind     string         `json:"kind"` // which oracle re-executes it
	Args     map[string]any `json:"args"`
	Key      string         `json:"key"` // narrow identity used by KNOWN_FINDINGS
	Expected string         `json:"expected"`
	Observed string         `json:"observed"`
	GoTest   string         `json:"go_test,omitempty"`
}

// Report accumulates what one check run covered and found.
type Report struct {
	Prop  string
	Tier  string
	Seed  int64
	Start time.Time

	States      atomic.Int64 // model states visited
	Transitions atomic.Int64 // implementation calls compared with the model
	Traces      atomic.Int64 // model traces executed on the real code
	Evaluations atomic.Int64
	Distinct    atomic.Int64 // distinct non-trivial cases

	stop        atomic.Bool // set once more than 2000 violations were recorded: exploration may end early
	mu          sync.Mutex
	violations  []Case
	nViol       int64
	violKeys    map[string]int64
	knownKeys   map[string]bool
	unreproKeys map[string]int64
	unrepro     int64
	samples     []any
	sampleCap   int
	Extra       map[string]any
	Exhaustive  bool
	Bound       string
	Rule        string
	Assumptions []string
	Notes       []string
}

func NewReport(prop, tier string, seed int64) *Report {
	return &Report{Prop: prop, Tier: tier, Seed: seed, Start: time.Now(), violKeys: map[string]int64{}, unreproKeys: map[string]int64{}, Extra: map[string]any{}, sampleCap: 12, Exhaustive: true}
}

func (r *Report) Sample(s any) {
	r.mu.Lock()
	if len(r.samples) < r.sampleCap {
		r.samples = append(r.samples, s)
	}
	r.mu.Unlock()
}

func (r *Report) WantSample() bool {
	r.mu.Lock()
	defer r.mu.Unlock()
	return len(r.samples) < r.sampleCap
}

func (r *Report) SetExtra(k string, v any) {
	r.mu.Lock()
	r.Extra[k] = v
	r.mu.Unlock()
}

func (r *Report) AddExtra(k string, n int64) {
	r.mu.Lock()
	if cur, ok := r.Extra[k].(int64); ok {
		r.Extra[k] = cur + n
	} else {
		r.Extra[k] = n
	}
	r.mu.Unlock()
}

func (r *Report) Note(format string, a ...any) {
	r.mu.Lock()
	if len(r.Notes) < 200 {
		r.Notes = append(r.Notes, trunc(fmt.Sprintf(format, a...), 2000))
	}
	r.mu.Unlock()
}

// NotExhaustive records that a cap was hit.
func (r *Report) NotExhaustive(why string) {
	r.mu.Lock()
	r.Exhaustive = false
	r.Notes = append(r.Notes, "not exhaustive: "+why)
	r.mu.Unlock()
}

// Violation records a violation. recheck, when non-nil, re-executes the single
// case from scratch; the violation is only believed when it reproduces on each
// of 5 re-executions.
func (r *Report) Violation(c Case, recheck func() bool) {
	// a key that was already confirmed 3 times is only counted (no re-execution)
	r.mu.Lock()
	if r.knownKeys == nil {
		r.knownKeys = map[string]bool{}
		kl, _ := loadKnown()
		for _, k := range kl {
			if k.prop == r.Prop {
				r.knownKeys[k.key] = true
			}
		}
	}
	if r.knownKeys[c.Key] && r.violKeys[c.Key] >= 1 {
		// a listed known finding: counted, never a reason to end exploration early
		r.violKeys[c.Key]++
		r.mu.Unlock()
		return
	}
	known := r.knownKeys[c.Key]
	if r.unreproKeys[c.Key] >= 3 {
		// this key failed to reproduce 3 times already: count it under its nondeterministic key, do not re-execute again
		r.unrepro++
		r.unreproKeys[c.Key]++
		r.violKeys["nondeterministic/"+c.Key]++
		r.nViol++
		if r.nViol > 2000 {
			r.stop.Store(true)
		}
		r.mu.Unlock()
		return
	}
	if r.violKeys[c.Key] >= 3 {
		r.violKeys[c.Key]++
		r.nViol++
		if r.nViol > 2000 {
			r.stop.Store(true)
		}
		r.mu.Unlock()
		return
	}
	r.mu.Unlock()
	if recheck != nil {
		for i := 0; i < 5; i++ {
			if !recheck() {
				// The discrepancy was observed on a real execution but re-executing the same case from scratch
				// conforms: the result of a function that must be determined by its arguments alone depends on
				// call history or schedule. That is reported (under its own key), not dropped: every engine
				// re-executes deterministically, so the nondeterminism is in the code under test.
				r.mu.Lock()
				r.unrepro++
				r.unreproKeys[c.Key]++
				r.mu.Unlock()
				c.Observed += fmt.Sprintf(" [observed once; re-execution %d of the same case from scratch conformed: the result depends on call history or schedule]", i+1)
				c.Key = "nondeterministic/" + c.Key
				recheck = nil
				break
			}
		}
	}
	known = r.knownKeys[c.Key]
	c.Property = r.Prop
	r.mu.Lock()
	if !known {
		r.nViol++
	}
	r.violKeys[c.Key]++
	// keep the first case of each key, up to 40 keys
	if r.violKeys[c.Key] == 1 && len(r.violations) < 40 {
		r.violations = append(r.violations, c)
	}
	if r.nViol > 2000 {
		r.stop.Store(true)
	}
	r.mu.Unlock()
}

func (r *Report) NumViolations() int64 {
	r.mu.Lock()
	defer r.mu.Unlock()
	return r.nViol
}

// TooMany reports whether exploration may stop early (enough distinct violations collected).
func (r *Report) TooMany() bool { return r.stop.Load() }

type knownLine struct {
	prop, key, text string
}

func loadKnown() ([]knownLine, error) {
	f, err := os.Open(filepath.Join(VerifDir, "KNOWN_FINDINGS.txt"))
	if err != nil {
		if os.IsNotExist(err) {
			return nil, nil
		}
		return nil, err
	}
	defer f.Close()
	var out []knownLine
	sc := bufio.NewScanner(f)
	for sc.Scan() {
		line := strings.TrimSpace(sc.Text())
		if !strings.HasPrefix(line, "known:") {
			continue // comments and "fixed:" lines suppress nothing
		}
		fields := strings.Fields(line[len("known:"):])
		var k knownLine
		var rest []string
		for _, f := range fields {
			switch {
			case strings.HasPrefix(f, "property=") && k.prop == "":
				k.prop = f[len("property="):]
			case strings.HasPrefix(f, "key=") && k.key == "":
				k.key = f[len("key="):]
			default:
				rest = append(rest, f)
			}
		}
		k.text = strings.Join(rest, " ")
		if k.prop != "" && k.key != "" {
			out = append(out, k)
		}
	}
	return out, sc.Err()
}

// Finish writes the evidence file, prints KNOWN-FINDING / VIOLATION lines and
// returns the process exit code.
func (r *Report) Finish() int {
	known, err := loadKnown()
	if err != nil {
		fmt.Fprintln(os.Stderr, "cannot read KNOWN_FINDINGS.txt:", err)
		return 2
	}
	isKnown := func(c Case) (knownLine, bool) {
		for _, k := range known {
			if k.prop == r.Prop && k.key == c.Key {
				return k, true
			}
		}
		return knownLine{}, false
	}
	r.mu.Lock()
	viol := append([]Case(nil), r.violations...)
	keys := map[string]int64{}
	for k, v := range r.violKeys {
		keys[k] = v
	}
	r.mu.Unlock()

	var newViol []Case
	knownHit := map[string]int64{}
	var knownCount, newCount int64
	for k, n := range keys {
		if _, ok := isKnown(Case{Key: k}); ok {
			knownHit[k] = n
			knownCount += n
		} else {
			newCount += n
		}
	}
	for _, c := range viol {
		if _, ok := isKnown(c); !ok {
			newViol = append(newViol, c)
		}
	}
	// evidence
	wall := time.Since(r.Start).Seconds()
	cov := map[string]any{
		"states":                        r.States.Load(),
		"transitions":                   r.Transitions.Load(),
		"traces_validated_against_impl": r.Traces.Load(),
		"evaluations":                   r.Evaluations.Load(),
		"distinct_nontrivial":           r.Distinct.Load(),
		"rule":                          r.Rule,
		"samples":                       r.samples,
		"exhaustive":                    r.Exhaustive,
		"bound":                         r.Bound,
		"known_findings_matched":        knownCount,
		"unreproduced":                  r.unrepro,
	}
	if len(r.Notes) > 0 {
		notes := r.Notes
		if len(notes) > 50 {
			notes = notes[:50]
		}
		cov["notes"] = notes
	}
	for k, v := range r.Extra {
		cov[k] = v
	}
	if len(r.samples) == 0 {
		cov["samples"] = []any{"(no case generated)"}
	}
	ev := map[string]any{
		"property_id": r.Prop,
		"tier":        r.Tier,
		"seed":        r.Seed,
		"level":       "model_checking",
		"coverage":    cov,
		"assumptions": r.Assumptions,
		"wall_s":      wall,
		"violations":  newCount,
	}
	if r.Assumptions == nil {
		ev["assumptions"] = []string{}
	}
	os.MkdirAll(filepath.Join(outDir(), "evidence"), 0o755)
	b, _ := json.MarshalIndent(ev, "", " ")
	evPath := filepath.Join(outDir(), "evidence", r.Prop+".json")
	if err := os.WriteFile(evPath, append(b, '\n'), 0o644); err != nil {
		fmt.Fprintln(os.Stderr, "cannot write evidence:", err)
		return 2
	}

	fmt.Printf("property=%s tier=%s states=%d transitions=%d traces=%d evaluations=%d distinct=%d exhaustive=%v wall=%.1fs\n",
		r.Prop, r.Tier, r.States.Load(), r.Transitions.Load(), r.Traces.Load(), r.Evaluations.Load(), r.Distinct.Load(), r.Exhaustive, wall)
	for _, n := range r.Notes {
		if len(n) > 300 {
			n = n[:300] + "…"
		}
		fmt.Println("note:", n)
	}
	// known findings
	var kk []string
	for k := range knownHit {
		kk = append(kk, k)
	}
	sort.Strings(kk)
	for _, k := range kk {
		kl, _ := isKnown(Case{Key: k})
		fmt.Printf("KNOWN-FINDING: property=%s key=%s occurrences=%d %s\n", r.Prop, k, knownHit[k], kl.text)
	}
	if len(newViol) == 0 && newCount == 0 {
		return 0
	}
	os.MkdirAll(filepath.Join(outDir(), "replays"), 0o755)
	for _, c := range newViol {
		jb, _ := json.MarshalIndent(c, "", " ")
		h := sha256.Sum256(jb)
		p := filepath.Join(outDir(), "replays", fmt.Sprintf("%s-%s.json", r.Prop, hex.EncodeToString(h[:6])))
		os.WriteFile(p, append(jb, '\n'), 0o644)
		fmt.Printf("VIOLATION property=%s replay=%s\n", r.Prop, p)
		fmt.Printf("  key=%s occurrences=%d\n  expected: %s\n  observed: %s\n", c.Key, keys[c.Key], trunc(c.Expected, 400), trunc(c.Observed, 400))
	}
	fmt.Printf("violations=%d distinct_keys=%d\n", newCount, len(keys)-len(knownHit))
	if r.stop.Load() {
		fmt.Println("exploration ended early after more than 2000 violations")
	}
	return 1
}

func trunc(s string, n int) string {
	if len(s) > n {
		return s[:n] + "…"
	}
	return s
}

// Parallel runs f(i) for i in [0,n) on all cores; shards are claimed in order.
func Parallel(n int, workers int, f func(i int)) {
	if workers <= 0 {
		workers = 16
	}
	if workers > n {
		workers = n
	}
	if workers <= 1 {
		for i := 0; i < n; i++ {
			f(i)
		}
		return
	}
	var next atomic.Int64
	var wg sync.WaitGroup
	for w := 0; w < workers; w++ {
		wg.Add(1)
		go func() {
			defer wg.Done()
			for {
				i := int(next.Add(1) - 1)
				if i >= n {
					return
				}
				f(i)
			}
		}()
	}
	wg.Wait()
}

// Safely runs f and converts a panic into a string.
func Safely(f func()) (panicked any) {
	defer func() {
		if p := recover(); p != nil {
			panicked = p
		}
	}()
	f()
	return nil
}
