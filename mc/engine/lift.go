package engine

import (
	"fmt"

	gocvss40 "github.com/pandatix/go-cvss/40"

	"verif/mc/spec"
)

// Deviation-bounded lifting of the score checks from effective classes to
// concrete representations (C10; also feeds C11).
//
// A deviation is one overridable metric represented through its Modified twin
// (Modified = effective value, base = some value b) instead of canonically
// (Modified = X, base = effective value).

type v3Dev struct{ m, b int } // base metric index 0..7, base value index

func v3Devs() []v3Dev {
	var d []v3Dev
	for m := 0; m < 8; m++ {
		for b := range spec.V31.Metrics[m].Values {
			d = append(d, v3Dev{m, b})
		}
	}
	return d
}

// sweepV3Lift enumerates all effective classes under the given deviations.
func sweepV3Lift[T comparable, P Object[T]](r *Report, im *Impl[T, P], devs []v3Dev, restrict bool, each func(a spec.Assignment, o *T) (string, string, string)) {
	ver := im.Ver
	bg := v3bg(ver)
	ms := []int{0, 1, 2, 3, 4, 5, 6, 7, 8, 9, 10, 11, 12, 13}
	dims := FullDims(ver, ms)
	if restrict {
		// quick: RL and RC (which play no part in the resolution of Modified metrics) take 2 of their values
		dims[9].Vals = []int8{0, 4}
		dims[10].Vals = []int8{0, 3}
	}
	for _, d := range devs {
		mod := 14 + d.m
		// Modified metric ranges over its non-X values (= effective value), base fixed to b
		var vals []int8
		for k := 1; k < len(ver.Metrics[mod].Values); k++ {
			vals = append(vals, int8(k))
		}
		dims[d.m] = Dim{M: mod, Vals: vals}
		bg[d.m] = int8(d.b)
	}
	var n Counter
	Iterate(im, dims, bg, 16, func(idx int, a spec.Assignment, o *T) {
		n.Add(idx, 1)
		if key, exp, obs := each(a, o); key != "" {
			iterViolation(r, im, dims, bg, 16, idx, a, "v3-score", key, exp, obs+" on "+P(o).Vector(), nil,
				func(a spec.Assignment, o *T) string { k, _, _ := each(a, o); return k })
		}
	}, iterBad(r, im, dims, bg, "v3-score"), r.TooMany)
	r.States.Add(n.Load())
	r.Transitions.Add(n.Load() * 5)
	r.Traces.Add(n.Load())
}

// v3AllOverridden: every overridable metric represented through its Modified twin, base rotated by rot.
func sweepV3AllOverridden[T comparable, P Object[T]](r *Report, im *Impl[T, P], rot int, each func(a spec.Assignment, o *T) (string, string, string)) {
	ver := im.Ver
	// enumerate effective classes via Modified dims; base follows as (eff+rot) mod radix -> done by post-processing in fn
	bg := v3bg(ver)
	var dims []Dim
	for m := 0; m < 8; m++ {
		mod := 14 + m
		var vals []int8
		for k := 1; k < len(ver.Metrics[mod].Values); k++ {
			vals = append(vals, int8(k))
		}
		dims = append(dims, Dim{M: mod, Vals: vals})
	}
	dims = append(dims, FullDims(ver, []int{8, 9, 10, 11, 12, 13})...)
	var n Counter
	Iterate(im, dims, bg, 16, func(idx int, a spec.Assignment, o *T) {
		// set base metrics to a rotation of the effective values on a copy
		oo := *o
		aa := a.Clone()
		for m := 0; m < 8; m++ {
			rad := len(ver.Metrics[m].Values)
			aa[m] = int8((int(a[14+m]-1) + rot) % rad)
			P(&oo).Set(ver.Metrics[m].Abv, ver.Metrics[m].Values[aa[m]])
		}
		n.Add(idx, 1)
		if key, exp, obs := each(aa, &oo); key != "" {
			r.Violation(Case{Kind: "v3-score", Key: key, Expected: exp, Observed: obs + " on " + P(&oo).Vector(),
				Args: map[string]any{"version": ver.Name, "vector": ver.Full(aa)}}, nil)
		}
	}, func(idx int, a spec.Assignment, why string) {}, r.TooMany)
	r.States.Add(n.Load())
	r.Transitions.Add(n.Load() * 5)
	r.Traces.Add(n.Load())
}

// ---- v4 ----

type v4Dev struct {
	kind int // 0: overridable metric m via Modified with base b; 1: default-X for E/CR/IR/AR (m=0..3); 2: supplemental metric m value v
	m, b int
	val  string
}

func v4Devs() []v4Dev {
	var d []v4Dev
	for m := 0; m < 11; m++ {
		base := spec.V4.Metrics[spec.V4.Index(v4Base[m])].Values
		for b := range base {
			d = append(d, v4Dev{kind: 0, m: m, b: b, val: base[b]})
		}
	}
	for m := 0; m < 4; m++ {
		d = append(d, v4Dev{kind: 1, m: m})
	}
	for m := 0; m < 6; m++ {
		for _, v := range spec.V4.Metrics[spec.V4.Index(v4SuppNames[m])].Values[1:] {
			d = append(d, v4Dev{kind: 2, m: m, val: v})
		}
	}
	return d
}

// apply returns false when the deviation does not apply to the class (e.g. E:X only stands for E:A).
func (d v4Dev) apply(c spec.V4Class, r *V4Repr) bool {
	switch d.kind {
	case 0:
		r.Base[d.m] = d.val
		r.Mod[d.m] = spec.V4SevNames[d.m][c[d.m]]
		return true
	case 1:
		if c[11+d.m] != 0 { // only the default value (E:A, CR/IR/AR:H) may be written as X
			return false
		}
		r.ECR[d.m] = "X"
		return true
	default:
		r.Supp[d.m] = d.val
		return true
	}
}

func (d v4Dev) String() string {
	switch d.kind {
	case 0:
		return fmt.Sprintf("%s via %s, base=%s", v4Base[d.m], v4Mod[d.m], d.val)
	case 1:
		return v4Base[11+d.m] + ":X for the default"
	}
	return v4SuppNames[d.m] + ":" + d.val
}

// v4CheckRepr compares the score of one representation of class c with the exact model, or (table != nil:
// differential mode of C10) with the implementation's own score of the canonical representative.
func v4CheckRepr(c spec.V4Class, rp *V4Repr, table V4Table) (key, expected, observed string, o gocvss40.CVSS40) {
	o, err := rp.Object()
	if err != nil {
		return "v4.0/score/cannot-build", "legal Set calls succeed", err.Error(), o
	}
	want, _, _ := spec.V4Score(c)
	if table != nil {
		want = int(table[c.Index()])
		if table[c.Index()] == v4Bad {
			return "", "", "", o // the canonical representative itself misbehaves: C04/C11's business
		}
	}
	s, p := v4ImplScore(&o)
	if p != nil {
		return "v4.0/Score/panic", fmt.Sprintf("%.1f", float64(want)/10), fmt.Sprintf("panic: %v on %s", p, o.Vector()), o
	}
	k, ok := score10(s)
	if !ok {
		return "v4.0/Score/not-one-decimal", fmt.Sprintf("%.1f", float64(want)/10), fmt.Sprintf("%v on %s", s, o.Vector()), o
	}
	if k != want {
		return "v4.0/Score/depends-on-representation", fmt.Sprintf("%.1f for effective class %s", float64(want)/10, c), fmt.Sprintf("%.1f on %s", s, o.Vector()), o
	}
	return "", "", "", o
}

// sweepV4Lift: every class selected by keep x every combination of up to `bound` deviations on distinct metrics.
func sweepV4Lift(r *Report, bound int, keep func(c spec.V4Class) bool, table V4Table) {
	devs := v4Devs()
	n := spec.V4NumClasses
	chunk := 1 << 12
	nch := (n + chunk - 1) / chunk
	slot := func(d v4Dev) int { return d.kind*16 + d.m }
	Parallel(nch, 16, func(ci int) {
		if r.TooMany() {
			return
		}
		lo, hi := ci*chunk, (ci+1)*chunk
		if hi > n {
			hi = n
		}
		var cnt int64
		for idx := lo; idx < hi; idx++ {
			c := spec.V4ClassFromIndex(idx)
			if keep != nil && !keep(c) {
				continue
			}
			try := func(ds ...v4Dev) {
				rp := CanonRepr(c)
				for _, d := range ds {
					if !d.apply(c, &rp) {
						return
					}
				}
				cnt++
				key, exp, obs, o := v4CheckRepr(c, &rp, table)
				if key != "" {
					cc, rr := c, rp
					cv := CanonRepr(c)
					co, _ := cv.Object()
					r.Violation(Case{Kind: "v4-repr", Key: key, Expected: exp, Observed: obs,
						Args: map[string]any{"index": idx, "class": c.String(), "vector": o.Vector(), "canonical": co.Vector(), "differential": table != nil}},
						func() bool { k2, _, _, _ := v4CheckRepr(cc, &rr, table); return k2 != "" })
				}
			}
			for i, d1 := range devs {
				try(d1)
				if bound >= 2 {
					for _, d2 := range devs[i+1:] {
						if slot(d2) != slot(d1) {
							try(d1, d2)
						}
					}
				}
			}
		}
		r.States.Add(cnt)
		r.Transitions.Add(cnt)
		r.Traces.Add(cnt)
	})
}

func init() {
	replayers["v4-repr"] = func(c *Case) string {
		if err := spec.V4Init(); err != nil {
			return err.Error()
		}
		// rebuild from the vector: parse with the reference parser, derive the effective class, compare
		vec := argStr(c, "vector")
		o, err := gocvss40.ParseVector(vec)
		if err != nil {
			return "replay vector rejected: " + err.Error()
		}
		cls := spec.V4ClassFromIndex(int(c.Args["index"].(float64)))
		want, _, _ := spec.V4Score(cls)
		if d, _ := c.Args["differential"].(bool); d {
			// differential mode: the expectation is the implementation's own score of the canonical representative
			if co, cerr := gocvss40.ParseVector(argStr(c, "canonical")); cerr == nil {
				if cs, cp := v4ImplScore(co); cp == nil {
					if k, ok := score10(cs); ok {
						want = k
					}
				}
			}
		}
		s, p := v4ImplScore(o)
		if p != nil {
			return fmt.Sprintf("panic %v", p)
		}
		if k, ok := score10(s); !ok || k != want {
			return fmt.Sprintf("Score(%s) = %v, effective class %s scores %.1f", vec, s, cls, float64(want)/10)
		}
		return ""
	}
}
