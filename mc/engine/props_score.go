package engine

import (
	"fmt"

	gocvss40 "github.com/pandatix/go-cvss/40"

	"verif/mc/spec"
)

// diag9 selects the effective classes whose (E,CR,IR,AR) lie on 9 "diagonal" patterns
// (all 81 combinations are swept in thorough).
func diag9(c spec.V4Class) bool {
	e, cr, ir, ar := c[spec.V4E], c[spec.V4CR], c[spec.V4IR], c[spec.V4AR]
	// patterns: the three constant diagonals (x,x,x,x) and the six rotations (x,y,y,y)/(x,x,y,x)-like with x!=y restricted
	if cr == ir && ir == ar {
		return true // 3 x 3 = 9 patterns: any E with CR=IR=AR
	}
	_ = e
	return false
}

// CheckC10 — Modified / not-defined resolution.
func CheckC10(r *Report) {
	ColdStart(r)
	if err := spec.V4Init(); err != nil {
		r.Note("MODEL ERROR: %v", err)
		r.NotExhaustive("model start-up checks failed; nothing decided")
		return
	}
	thorough := r.Tier == "thorough"
	r.Rule = "E3 lifting: every effective class x every alternative representation within the deviation bound (deviation = one overridable metric represented through its Modified twin with an arbitrary base value, one default written as X, or one supplemental metric defined); oracle = exact model on effective values (EnvironmentalScore / v4 Score) and on base values (v3 BaseScore/TemporalScore), which is stronger than the differential comparison with the canonical representative; distinct = (class, representation) pairs"
	each30 := func(a spec.Assignment, o *CVSS30T) (string, string, string) { return v3CheckObj(I30, a, o) }
	each31 := func(a spec.Assignment, o *CVSS31T) (string, string, string) { return v3CheckObj(I31, a, o) }
	devs := v3Devs()
	// bound 0: the canonical representatives themselves (all Modified metrics X), so that a shortcut taken only
	// when nothing is overridden is compared with the same oracle as its explicit-copy twins
	sweepV3(r, I30)
	sweepV3(r, I31)
	SweepV4(r, "C10", nil, true)
	// bound 1
	for _, d := range devs {
		sweepV3Lift(r, I31, []v3Dev{d}, !thorough, each31)
		sweepV3Lift(r, I30, []v3Dev{d}, !thorough, each30)
	}
	v3b := "v3.0 and v3.1 bound 1: 22 representations x 3,317,760 classes (RL and RC restricted to 2 values each)"
	if thorough {
		// bound 2: all pairs on distinct metrics
		for i, d1 := range devs {
			for _, d2 := range devs[i+1:] {
				if d1.m == d2.m {
					continue
				}
				sweepV3Lift(r, I31, []v3Dev{d1, d2}, false, each31)
				sweepV3Lift(r, I30, []v3Dev{d1, d2}, false, each30)
			}
		}
		v3b = "v3.0 and v3.1 bound 2 complete (all single and pair representations x 16,588,800 classes)"
	}
	for rot := 0; rot < 3; rot++ {
		if !thorough && rot == 0 {
			continue
		}
		sweepV3AllOverridden(r, I31, rot, each31)
		sweepV3AllOverridden(r, I30, rot, each30)
	}
	// v4
	v4b := "v4 bound 1 on the CR=IR=AR, AC~AT sub-lattice of classes (839,808 classes x 56 deviations)"
	if thorough {
		sweepV4Lift(r, 1, nil, nil)
		sweepV4Lift(r, 2, func(c spec.V4Class) bool {
			return diag9(c) && c[spec.V4E] == c[spec.V4CR]%3 && c[spec.V4AC] == c[spec.V4AT] && c[spec.V4PR] == c[spec.V4UI]
		}, nil)
		v4b = "v4 bound 1 on all 15,116,544 classes; bound 2 (all pairs of deviations) on a 62,208-class sub-lattice"
	} else {
		sweepV4Lift(r, 1, func(c spec.V4Class) bool { return diag9(c) && c[spec.V4AC] == c[spec.V4AT] }, nil)
	}
	// v4: everything overridden at once + all supplemental metrics defined
	sweepV4AllOverridden(r, thorough)
	r.Bound = v3b + "; all-overridden patterns (base = effective rotated by 0,1,2); " + v4b + "; v4 all-overridden + all-supplemental patterns on all classes"
	r.Exhaustive = false
	r.Distinct.Store(r.States.Load())
	r.Evaluations.Store(r.Transitions.Load())
	r.Sample(map[string]any{"example_deviation": v4Devs()[5].String(), "class": spec.V4ClassFromIndex(1234567).String()})
	r.Assumptions = []string{"representations with more deviations than the bound are covered only by the all-overridden patterns", "exact models of C03/C04 (mc/spec)"}
}

func sweepV4AllOverridden(r *Report, thorough bool) {
	n := spec.V4NumClasses
	chunk := 1 << 12
	nch := (n + chunk - 1) / chunk
	supp := [][6]string{{"N", "N", "A", "D", "L", "Clear"}, {"P", "Y", "I", "C", "H", "Red"}}
	Parallel(nch, 16, func(ci int) {
		if r.TooMany() {
			return
		}
		lo, hi := ci*chunk, (ci+1)*chunk
		if hi > n {
			hi = n
		}
		var cnt int64
		for idx := lo; idx < hi; idx++ {
			c := spec.V4ClassFromIndex(idx)
			for rot := 0; rot < 3; rot++ {
				if !thorough && rot != 1+idx%2 {
					continue
				}
				rp := CanonRepr(c)
				for m := 0; m < 11; m++ {
					base := spec.V4.Metrics[spec.V4.Index(v4Base[m])].Values
					eff := spec.V4SevNames[m][c[m]]
					bi := 0
					for k, v := range base {
						if v == eff {
							bi = k
						}
					}
					rp.Base[m] = base[(bi+rot)%len(base)]
					rp.Mod[m] = eff
				}
				rp.Supp = supp[(idx+rot)%2]
				for q := 0; q < 4; q++ {
					if c[11+q] == 0 && (idx>>uint(q))&1 == 1 {
						rp.ECR[q] = "X"
					}
				}
				cnt++
				key, exp, obs, o := v4CheckRepr(c, &rp)
				if key != "" {
					cc, rr := c, rp
					r.Violation(Case{Kind: "v4-repr", Key: key, Expected: exp, Observed: obs,
						Args: map[string]any{"index": idx, "class": c.String(), "vector": o.Vector()}},
						func() bool { k2, _, _, _ := v4CheckRepr(cc, &rr); return k2 != "" })
				}
			}
		}
		r.States.Add(cnt)
		r.Transitions.Add(cnt)
		r.Traces.Add(cnt)
	})
}

var _ = fmt.Sprint
var _ gocvss40.CVSS40
