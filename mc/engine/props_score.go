package engine

import (
	"fmt"

	gocvss40 "github.com/pandatix/go-cvss/40"

	"verif/mc/spec"
)

// diag9 selects the effective classes whose (E,CR,IR,AR) lie on 9 "diagonal" patterns
// (all 81 combinations are swept in thorough).
func diag9(c spec.V4Class) bool {
	e, cr, ir, ar := c[spec.V4E], c[spec.V4CR], c[spec.V4IR], c[spec.V4AR]
	// patterns: the three constant diagonals (x,x,x,x) and the six rotations (x,y,y,y)/(x,x,y,x)-like with x!=y restricted
	if cr == ir && ir == ar {
		return true // 3 x 3 = 9 patterns: any E with CR=IR=AR
	}
	_ = e
	return false
}

// CheckC10 — Modified / not-defined resolution.
func CheckC10(r *Report) {
	if err := spec.V4Init(); err != nil {
		r.Note("MODEL ERROR: %v", err)
		r.NotExhaustive("model start-up checks failed; nothing decided")
		return
	}
	thorough := r.Tier == "thorough"
	r.Rule = "E3 lifting, differential: the implementation's own scores of the canonical representative of every effective class (Modified = X, base = effective value) are tabulated first; then every alternative representation within the deviation bound (deviation = one overridable metric represented through its Modified twin with an arbitrary base value, one default written as X, or one supplemental metric defined) must score exactly like the canonical representative of the same effective values (v3 EnvironmentalScore, v4 Score), v3 BaseScore/TemporalScore must equal those of the canonical object with the same base and temporal values, and X must score like the specification's default (v3: E:X=H, RL:X=U, RC:X=C, CR/IR/AR:X=M; v4: E:X=A, CR/IR/AR:X=H). The oracle is independent of the C03/C04 models. distinct = (class, representation) pairs"
	// bound 0: canonical tables (and the defaults inside them)
	t30 := buildV3Table(r, I30)
	t31 := buildV3Table(r, I31)
	v3Defaults(r, I30, t30)
	v3Defaults(r, I31, t31)
	t4 := make(V4Table, spec.V4NumClasses)
	SweepV4(r, "C10", t4, false)
	each30 := func(a spec.Assignment, o *CVSS30T) (string, string, string) { return v3CheckDiff(I30, t30, a, o, true) }
	each31 := func(a spec.Assignment, o *CVSS31T) (string, string, string) { return v3CheckDiff(I31, t31, a, o, true) }
	// the pair sweeps of the thorough tier take the scores in one order only (both orders are covered by bound 1 and the all-overridden sweeps)
	pair30 := func(a spec.Assignment, o *CVSS30T) (string, string, string) { return v3CheckDiff(I30, t30, a, o, false) }
	pair31 := func(a spec.Assignment, o *CVSS31T) (string, string, string) { return v3CheckDiff(I31, t31, a, o, false) }
	devs := v3Devs()
	// bound 1
	for _, d := range devs {
		sweepV3Lift(r, I31, []v3Dev{d}, !thorough, each31)
		sweepV3Lift(r, I30, []v3Dev{d}, !thorough, each30)
	}
	v3b := "v3.0 and v3.1 bound 1: 22 representations x 3,317,760 classes (RL and RC restricted to 2 values each)"
	if thorough {
		// bound 2: all pairs on distinct metrics
		for i, d1 := range devs {
			for _, d2 := range devs[i+1:] {
				if d1.m == d2.m {
					continue
				}
				sweepV3Lift(r, I31, []v3Dev{d1, d2}, false, pair31)
				sweepV3Lift(r, I30, []v3Dev{d1, d2}, false, pair30)
			}
		}
		v3b = "v3.0 and v3.1 bound 2 complete (all single and pair representations x 16,588,800 classes)"
	}
	for rot := 0; rot < 3; rot++ {
		if !thorough && rot == 0 {
			continue
		}
		sweepV3AllOverridden(r, I31, rot, each31)
		sweepV3AllOverridden(r, I30, rot, each30)
	}
	// v4
	v4b := "v4 bound 1 on the CR=IR=AR, AC~AT sub-lattice of classes (839,808 classes x 56 deviations)"
	if thorough {
		sweepV4Lift(r, 1, nil, t4)
		sweepV4Lift(r, 2, func(c spec.V4Class) bool {
			return diag9(c) && c[spec.V4E] == c[spec.V4CR]%3 && c[spec.V4AC] == c[spec.V4AT] && c[spec.V4PR] == c[spec.V4UI]
		}, t4)
		v4b = "v4 bound 1 on all 15,116,544 classes; bound 2 (all pairs of deviations) on a 62,208-class sub-lattice"
	} else {
		sweepV4Lift(r, 1, func(c spec.V4Class) bool { return diag9(c) && c[spec.V4AC] == c[spec.V4AT] }, t4)
	}
	// v4: everything overridden at once + all supplemental metrics defined
	sweepV4AllOverridden(r, thorough, t4)
	r.Bound = v3b + "; all-overridden patterns (base = effective rotated by 0,1,2); " + v4b + "; v4 all-overridden + all-supplemental patterns on all classes"
	r.Exhaustive = false
	r.Distinct.Store(r.States.Load())
	r.Evaluations.Store(r.Transitions.Load())
	r.Sample(map[string]any{"example_deviation": v4Devs()[5].String(), "class": spec.V4ClassFromIndex(1234567).String()})
	r.Assumptions = []string{"representations with more deviations than the bound are covered only by the all-overridden patterns", "the canonical representatives themselves are tied to the specification by C03/C04"}
}

func sweepV4AllOverridden(r *Report, thorough bool, table V4Table) {
	n := spec.V4NumClasses
	chunk := 1 << 12
	nch := (n + chunk - 1) / chunk
	supp := [][6]string{{"N", "N", "A", "D", "L", "Clear"}, {"P", "Y", "I", "C", "H", "Red"}}
	Parallel(nch, 16, func(ci int) {
		if r.TooMany() {
			return
		}
		lo, hi := ci*chunk, (ci+1)*chunk
		if hi > n {
			hi = n
		}
		var cnt int64
		for idx := lo; idx < hi; idx++ {
			c := spec.V4ClassFromIndex(idx)
			for rot := 0; rot < 3; rot++ {
				if !thorough && rot != 1+idx%2 {
					continue
				}
				rp := CanonRepr(c)
				for m := 0; m < 11; m++ {
					base := spec.V4.Metrics[spec.V4.Index(v4Base[m])].Values
					eff := spec.V4SevNames[m][c[m]]
					bi := 0
					for k, v := range base {
						if v == eff {
							bi = k
						}
					}
					rp.Base[m] = base[(bi+rot)%len(base)]
					rp.Mod[m] = eff
				}
				rp.Supp = supp[(idx+rot)%2]
				for q := 0; q < 4; q++ {
					if c[11+q] == 0 && (idx>>uint(q))&1 == 1 {
						rp.ECR[q] = "X"
					}
				}
				cnt++
				key, exp, obs, o := v4CheckRepr(c, &rp, table)
				if key != "" {
					cc, rr := c, rp
					cv := CanonRepr(c)
					co, _ := cv.Object()
					r.Violation(Case{Kind: "v4-repr", Key: key, Expected: exp, Observed: obs,
						Args: map[string]any{"index": idx, "class": c.String(), "vector": o.Vector(), "canonical": co.Vector(), "differential": table != nil}},
						func() bool { k2, _, _, _ := v4CheckRepr(cc, &rr, table); return k2 != "" })
				}
			}
		}
		r.States.Add(cnt)
		r.Transitions.Add(cnt)
		r.Traces.Add(cnt)
	})
}

var _ = fmt.Sprint
var _ gocvss40.CVSS40

// ---- v3 differential machinery ----

// v3Table: the implementation's BaseScore/TemporalScore/EnvironmentalScore (tenths) of the canonical object of
// every class index (mixed radix over metrics 0..13, metric 0 fastest); v4Bad when malformed.
type v3Table [][3]int16

var v3Strides = func() [14]int {
	var st [14]int
	mul := 1
	for i := 0; i < 14; i++ {
		st[i] = mul
		mul *= len(spec.V31.Metrics[i].Values)
	}
	return st
}()

func buildV3Table[T comparable, P Object[T]](r *Report, im *Impl[T, P]) v3Table {
	ver := im.Ver
	t := make(v3Table, 16588800)
	dims := v3ClassDims(ver)
	Iterate(im, dims, v3bg(ver), 16, func(idx int, a spec.Assignment, o *T) {
		for k := 0; k < 3; k++ {
			var s float64
			if p := Safely(func() { c := *o; s = im.Scores[k].F(&c) }); p != nil {
				t[idx][k] = v4Bad
				continue
			}
			if q, ok := score10(s); ok {
				t[idx][k] = int16(q)
			} else {
				t[idx][k] = v4Bad
			}
		}
	}, iterBad(r, im, dims, v3bg(ver), "v3-score"), r.TooMany)
	r.States.Add(16588800)
	r.Transitions.Add(16588800 * 3)
	return t
}

// v3Defaults: inside the canonical table, X must score like the specification's default value.
func v3Defaults[T comparable, P Object[T]](r *Report, im *Impl[T, P], t v3Table) {
	ver := im.Ver
	// metric index -> value index of the default that X stands for, and which of the three scores it concerns
	type dflt struct {
		m, val int
		scores []int
	}
	ds := []dflt{{8, 1, []int{1, 2}}, {9, 1, []int{1, 2}}, {10, 1, []int{1, 2}}, {11, 2, []int{2}}, {12, 2, []int{2}}, {13, 2, []int{2}}}
	n := len(t)
	Parallel((n+65535)/65536, 16, func(ci int) {
		lo, hi := ci*65536, (ci+1)*65536
		if hi > n {
			hi = n
		}
		for idx := lo; idx < hi; idx++ {
			for _, d := range ds {
				rad := len(ver.Metrics[d.m].Values)
				if (idx/v3Strides[d.m])%rad != 0 {
					continue // this metric is not X in this class
				}
				idx2 := idx + d.val*v3Strides[d.m]
				for _, k := range d.scores {
					if t[idx][k] != t[idx2][k] && t[idx][k] != v4Bad && t[idx2][k] != v4Bad {
						m := ver.Metrics[d.m]
						r.Violation(Case{Kind: "v3-default", Key: "v" + ver.Name + "/" + im.Scores[k].Name + "/" + m.Abv + ":X-does-not-score-like-" + m.Values[d.val],
							Expected: fmt.Sprintf("%s:X scores like %s:%s (%.1f)", m.Abv, m.Abv, m.Values[d.val], float64(t[idx2][k])/10), Observed: fmt.Sprintf("%.1f", float64(t[idx][k])/10),
							Args:     map[string]any{"version": ver.Name, "index": idx, "metric": m.Abv}}, nil)
					}
				}
			}
		}
		r.Transitions.Add(int64(hi-lo) * 9)
	})
}

// v3CheckDiff: differential oracle of C10 for one (deviated) object.
func v3CheckDiff[T comparable, P Object[T]](im *Impl[T, P], t v3Table, a spec.Assignment, o *T, bothOrders bool) (key, expected, observed string) {
	tag := "v" + im.Ver.Name + "/"
	c := v3ClassOf(a)
	eff := [14]int8{c.AV, c.AC, c.PR, c.UI, c.S, c.C, c.I, c.A, c.E, c.RL, c.RC, c.CR, c.IR, c.AR}
	idxEff, idxBase := 0, 0
	for i := 0; i < 14; i++ {
		idxEff += int(eff[i]) * v3Strides[i]
		if i < 11 {
			idxBase += int(a[i]) * v3Strides[i]
		}
	}
	// the three scores are taken on copies of the object, once in the order Base, Temporal, Environmental and
	// once in the opposite order: which of them was asked first must not matter (a scoring method that resolves
	// the effective values into its receiver makes BaseScore depend on the Modified metrics afterwards)
	var res, rev [3]float64
	if p := Safely(func() {
		c1, c2 := *o, *o
		for i := range res {
			res[i] = im.Scores[i].F(&c1)
		}
		for i := len(rev) - 1; i >= 0 && bothOrders; i-- {
			rev[i] = im.Scores[i].F(&c2)
		}
	}); p != nil {
		return tag + "score/panic", "no panic", fmt.Sprint(p)
	}
	cmp := func(k int, idx int, what string) (string, string, string) {
		want := t[idx][k]
		if want == v4Bad {
			return "", "", ""
		}
		got, ok := score10(res[k])
		if !ok || int16(got) != want {
			return tag + im.Scores[k].Name + "/depends-on-representation", fmt.Sprintf("%.1f, the %s of the canonical object with the same %s", float64(want)/10, im.Scores[k].Name, what), fmt.Sprintf("%v", res[k])
		}
		got, ok = score10(rev[k])
		if bothOrders && (!ok || int16(got) != want) {
			return tag + im.Scores[k].Name + "/depends-on-representation@after-the-later-scores-were-taken", fmt.Sprintf("%.1f, the %s of the canonical object with the same %s", float64(want)/10, im.Scores[k].Name, what), fmt.Sprintf("%v when called after %s on the same object", rev[k], im.Scores[2].Name)
		}
		return "", "", ""
	}
	if k, e, ob := cmp(0, idxBase, "base values"); k != "" {
		return k, e, ob
	}
	if k, e, ob := cmp(1, idxBase, "base and temporal values"); k != "" {
		return k, e, ob
	}
	return cmp(2, idxEff, "effective values")
}

func v3DefaultReplay[T comparable, P Object[T]](im *Impl[T, P], idx int, metric string) string {
	ver := im.Ver
	a := v3bg(ver)
	x := idx
	for i := 0; i < 14; i++ {
		rad := len(ver.Metrics[i].Values)
		a[i] = int8(x % rad)
		x /= rad
	}
	mi := ver.Index(metric)
	if mi < 8 || mi > 13 {
		return "bad replay case"
	}
	dv := 1
	if mi >= 11 {
		dv = 2
	}
	b := a.Clone()
	b[mi] = int8(dv)
	s := NewOS(im, NewReport("x", "quick", 0))
	oa, _ := s.Build(a)
	ob, _ := s.Build(b)
	for k := 1; k < 3; k++ {
		if mi >= 11 && k != 2 {
			continue
		}
		if sa, sb := im.Scores[k].F(&oa), im.Scores[k].F(&ob); sa != sb {
			return fmt.Sprintf("%s: %s scores %v, %s scores %v", im.Scores[k].Name, ver.Canon(a), sa, ver.Canon(b), sb)
		}
	}
	return ""
}

func init() {
	replayers["v3-default"] = func(c *Case) string {
		idx := int(c.Args["index"].(float64))
		if argStr(c, "version") == "3.0" {
			return v3DefaultReplay(I30, idx, argStr(c, "metric"))
		}
		return v3DefaultReplay(I31, idx, argStr(c, "metric"))
	}
}
