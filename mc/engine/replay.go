package engine

import (
	"encoding/json"
	"fmt"
	"os"
	"strings"
)

// replayers re-execute one case with no explorer. They return a description of
// the discrepancy ("" when the case now conforms).
var replayers = map[string]func(c *Case) string{}

func Replay(path string) int {
	b, err := os.ReadFile(path)
	if err != nil {
		fmt.Fprintln(os.Stderr, err)
		return 2
	}
	var c Case
	if err := json.Unmarshal(b, &c); err != nil {
		fmt.Fprintln(os.Stderr, err)
		return 2
	}
	f, ok := replayers[c.Kind]
	if !ok {
		fmt.Fprintln(os.Stderr, "no replayer for kind", c.Kind)
		return 2
	}
	fmt.Printf("replaying %s case kind=%s key=%s\n", c.Property, c.Kind, c.Key)
	if c.GoTest != "" {
		fmt.Println("--- plain Go reproduction ---")
		fmt.Println(c.GoTest)
	}
	if d := f(&c); d != "" {
		fmt.Println("reproduced:", d)
		fmt.Printf("VIOLATION property=%s replay=%s\n", c.Property, path)
		return 1
	}
	fmt.Println("case conforms now")
	return 0
}

func argStr(c *Case, k string) string {
	s, _ := c.Args[k].(string)
	return s
}

func argOps(c *Case) [][]string {
	var ops [][]string
	raw, _ := c.Args["ops"].([]any)
	for _, r := range raw {
		var op []string
		for _, x := range r.([]any) {
			op = append(op, x.(string))
		}
		ops = append(ops, op)
	}
	return ops
}

func init() {
	replayers["obj-retained"] = func(c *Case) string {
		first, then := argStr(c, "first"), argStr(c, "then")
		run := func(parse func(string) (vecObj, error)) string {
			o1, e1 := parse(first)
			o2, e2 := parse(then)
			if e1 != nil || e2 != nil {
				return "replay vectors rejected"
			}
			v1 := o1.Vector()
			keep := strings.Clone(v1)
			for i := 0; i < 4; i++ {
				_ = o2.Vector()
				parse(then)
			}
			if v1 != keep {
				return fmt.Sprintf("string returned by Vector() changed from %q to %q", keep, strings.Clone(v1))
			}
			return ""
		}
		for _, p := range parsers {
			if p.ver.Name == argStr(c, "version") {
				return run(p.parse)
			}
		}
		return "unknown version"
	}
	replayers["obj-ops"] = func(c *Case) string {
		preds := Pred(0)
		if f, ok := c.Args["preds"].(float64); ok {
			preds = Pred(uint(f))
		}
		run := func(k, e, o string) string {
			if k == "" {
				return ""
			}
			return fmt.Sprintf("%s: expected %s; observed %s", k, e, o)
		}
		r := NewReport(c.Property, "quick", 0)
		switch argStr(c, "version") {
		case "2.0":
			return run(NewOS(I20, r).RunOps(argStr(c, "start"), argOps(c), preds))
		case "3.0":
			return run(NewOS(I30, r).RunOps(argStr(c, "start"), argOps(c), preds))
		case "3.1":
			return run(NewOS(I31, r).RunOps(argStr(c, "start"), argOps(c), preds))
		case "4.0":
			return run(NewOS(I40, r).RunOps(argStr(c, "start"), argOps(c), preds))
		}
		return "unknown version"
	}
}
