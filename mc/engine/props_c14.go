package engine

import (
	"bytes"
	"context"
	"encoding/json"
	"fmt"
	"go/ast"
	"go/format"
	"go/parser"
	"go/token"
	"os"
	"os/exec"
	"path/filepath"
	"sort"
	"strconv"
	"strings"
	"sync"
	"time"
)

// E4 "sched": schedules, pool answers and call histories (property C14).

var RepoDir = "/repo"

const shimImport = "github.com/pandatix/go-cvss/verifshim/vsync"
const atomicShimImport = "github.com/pandatix/go-cvss/verifshim/vatomic"

// addImport appends an import spec to the file's first import declaration.
func addImport(af *ast.File, name, path string) {
	spec := &ast.ImportSpec{Name: ast.NewIdent(name), Path: &ast.BasicLit{Kind: token.STRING, Value: strconv.Quote(path)}}
	for _, d := range af.Decls {
		if gd, ok := d.(*ast.GenDecl); ok && gd.Tok == token.IMPORT {
			gd.Specs = append(gd.Specs, spec)
			af.Imports = append(af.Imports, spec)
			return
		}
	}
	gd := &ast.GenDecl{Tok: token.IMPORT, Specs: []ast.Spec{spec}}
	af.Decls = append([]ast.Decl{gd}, af.Decls...)
	af.Imports = append(af.Imports, spec)
}

func goEnv() []string {
	env := os.Environ()
	env = append(env, "GOFLAGS=-mod=mod", "GOPROXY=off", "GOSUMDB=off", "GOTOOLCHAIN=local", "GOWORK=off")
	return env
}

// buildSched generates the overlay from the CURRENT working tree of /repo (every non-test file of
// the four packages that imports "sync" gets that import redirected to the shim) and builds the
// explorer. It returns the path of the binary and the list of instrumented files.
func buildSched(tmp string) (bin string, instrumented []string, err error) {
	replace := map[string]string{}
	shimSrc, err := os.ReadFile(filepath.Join(VerifDir, "mc", "shim", "vsync.go.src"))
	if err != nil {
		return "", nil, err
	}
	shimPath := filepath.Join(tmp, "vsync.go")
	if err := os.WriteFile(shimPath, shimSrc, 0o644); err != nil {
		return "", nil, err
	}
	replace[filepath.Join(RepoDir, "verifshim", "vsync", "vsync.go")] = shimPath
	atomSrc, err := os.ReadFile(filepath.Join(VerifDir, "mc", "shim", "vatomic.go.src"))
	if err != nil {
		return "", nil, err
	}
	atomPath := filepath.Join(tmp, "vatomic.go")
	if err := os.WriteFile(atomPath, atomSrc, 0o644); err != nil {
		return "", nil, err
	}
	replace[filepath.Join(RepoDir, "verifshim", "vatomic", "vatomic.go")] = atomPath
	for _, pkg := range []string{"20", "30", "31", "40"} {
		files, _ := filepath.Glob(filepath.Join(RepoDir, pkg, "*.go"))
		for _, f := range files {
			if strings.HasSuffix(f, "_test.go") {
				continue
			}
			fset := token.NewFileSet()
			af, perr := parser.ParseFile(fset, f, nil, parser.ParseComments)
			if perr != nil {
				return "", nil, fmt.Errorf("cannot parse %s: %v", f, perr)
			}
			// the controlled scheduler owns only the goroutines of the harness: code under test that starts its own
			// goroutines cannot be explored soundly (its scheduling points would be attributed to the wrong thread)
			spawns := false
			ast.Inspect(af, func(n ast.Node) bool {
				if _, ok := n.(*ast.GoStmt); ok {
					spawns = true
				}
				return !spawns
			})
			if spawns {
				return "", nil, fmt.Errorf("%s starts goroutines of its own: not explorable under the controlled scheduler", f)
			}
			changed := false
			syncName, atomName := "", ""
			for _, im := range af.Imports {
				switch im.Path.Value {
				case `"sync"`:
					im.Path.Value = strconv.Quote(shimImport)
					if im.Name == nil {
						im.Name = ast.NewIdent("sync")
					}
					syncName = im.Name.Name
					changed = true
				case `"sync/atomic"`:
					im.Path.Value = strconv.Quote(atomicShimImport)
					if im.Name == nil {
						im.Name = ast.NewIdent("atomic")
					}
					atomName = im.Name.Name
					changed = true
				}
			}
			if !changed {
				continue
			}
			if syncName == "_" || syncName == "." || atomName == "_" || atomName == "." {
				return "", nil, fmt.Errorf("%s imports sync or sync/atomic as _ or .: not instrumentable", f)
			}
			if syncName == "" {
				// the file uses sync/atomic only: it needs the vsync import for the inserted Yield calls
				syncName = "verifvsync"
				addImport(af, syncName, shimImport)
			}
			insertYields(af, syncName, atomName)
			var buf bytes.Buffer
			if err := format.Node(&buf, fset, af); err != nil {
				return "", nil, err
			}
			out := filepath.Join(tmp, pkg+"_"+filepath.Base(f))
			if err := os.WriteFile(out, buf.Bytes(), 0o644); err != nil {
				return "", nil, err
			}
			replace[f] = out
			instrumented = append(instrumented, strings.TrimPrefix(f, RepoDir+"/"))
		}
	}
	ov, _ := json.Marshal(map[string]any{"Replace": replace})
	ovPath := filepath.Join(tmp, "overlay.json")
	if err := os.WriteFile(ovPath, ov, 0o644); err != nil {
		return "", nil, err
	}
	bin = filepath.Join(tmp, "sched")
	args := []string{"build", "-tags", "verifsched", "-overlay", ovPath, "-o", bin}
	if mf := os.Getenv("VERIF_MODFILE"); mf != "" {
		args = append(args, "-modfile="+mf)
	}
	cmd := exec.Command("go", append(args, "./schedcmd")...)
	cmd.Dir = filepath.Join(VerifDir, "mc")
	cmd.Env = goEnv()
	if out, berr := cmd.CombinedOutput(); berr != nil {
		return "", instrumented, fmt.Errorf("instrumented build failed: %v\n%s", berr, out)
	}
	return bin, instrumented, nil
}

// insertYields adds a scheduling point at the head of every loop body of every function that
// mentions a package-level variable whose declaration uses package sync (e.g. a sync.Pool).
func insertYields(af *ast.File, syncName, atomName string) {
	usesSync := func(n ast.Node) bool {
		found := false
		ast.Inspect(n, func(x ast.Node) bool {
			if se, ok := x.(*ast.SelectorExpr); ok {
				if id, ok := se.X.(*ast.Ident); ok && (id.Name == syncName || (atomName != "" && id.Name == atomName)) {
					found = true
				}
			}
			return !found
		})
		return found
	}
	shared := map[string]bool{}
	for _, d := range af.Decls {
		gd, ok := d.(*ast.GenDecl)
		if !ok || gd.Tok != token.VAR {
			continue
		}
		for _, sp := range gd.Specs {
			vs := sp.(*ast.ValueSpec)
			if usesSync(vs) {
				for _, n := range vs.Names {
					shared[n.Name] = true
				}
			}
		}
	}
	if len(shared) == 0 {
		if syncName == "verifvsync" {
			// keep the added import used
			af.Decls = append(af.Decls, &ast.GenDecl{Tok: token.VAR, Specs: []ast.Spec{&ast.ValueSpec{
				Names: []*ast.Ident{ast.NewIdent("_")}, Values: []ast.Expr{&ast.SelectorExpr{X: ast.NewIdent(syncName), Sel: ast.NewIdent("Yield")}}}}})
		}
		return
	}
	if syncName == "verifvsync" {
		af.Decls = append(af.Decls, &ast.GenDecl{Tok: token.VAR, Specs: []ast.Spec{&ast.ValueSpec{
			Names: []*ast.Ident{ast.NewIdent("_")}, Values: []ast.Expr{&ast.SelectorExpr{X: ast.NewIdent(syncName), Sel: ast.NewIdent("Yield")}}}}})
	}
	for _, d := range af.Decls {
		fd, ok := d.(*ast.FuncDecl)
		if !ok || fd.Body == nil {
			continue
		}
		// every function of a file that declares shared sync/atomic state gets loop-level points: the code that
		// works on a shared buffer is often a helper that never names the shared variable itself
		yield := func() ast.Stmt {
			return &ast.ExprStmt{X: &ast.CallExpr{
				Fun:  &ast.SelectorExpr{X: ast.NewIdent(syncName), Sel: ast.NewIdent("Yield")},
				Args: []ast.Expr{&ast.BasicLit{Kind: token.STRING, Value: strconv.Quote("loop:" + fd.Name.Name)}},
			}}
		}
		ast.Inspect(fd.Body, func(x ast.Node) bool {
			switch l := x.(type) {
			case *ast.ForStmt:
				l.Body.List = append([]ast.Stmt{yield()}, l.Body.List...)
			case *ast.RangeStmt:
				l.Body.List = append([]ast.Stmt{yield()}, l.Body.List...)
			}
			return true
		})
	}
}

type schedStats struct {
	Executions   int64            `json:"executions"`
	Points       int64            `json:"schedule_points"`
	Decisions    int64            `json:"decisions"`
	MaxPreempt   int              `json:"max_preemptions"`
	PoolSizes    map[string]int64 `json:"final_pool_sizes"`
	News         map[string]int64 `json:"pool_new_calls_per_execution"`
	Outcomes     map[string]int64 `json:"distinct_interleaving_signatures"`
	Violations   []schedViolation `json:"violations"`
	NViol        int64            `json:"n_violations"`
	Diverged     int64            `json:"replay_divergences"`
	Capped       bool             `json:"capped"`
	EnvDeviation int64            `json:"executions_with_non_default_pool_answer"`
	Sample       []string         `json:"sample_execution"`
}

type schedViolation struct {
	Scenario string `json:"scenario"`
	Prefix   []int  `json:"choices"`
	What     string `json:"what"`
	Key      string `json:"key"`
}

func (a *schedStats) merge(b *schedStats) {
	a.Executions += b.Executions
	a.Points += b.Points
	a.Decisions += b.Decisions
	if b.MaxPreempt > a.MaxPreempt {
		a.MaxPreempt = b.MaxPreempt
	}
	for k, v := range b.PoolSizes {
		a.PoolSizes[k] += v
	}
	for k, v := range b.News {
		a.News[k] += v
	}
	for k, v := range b.Outcomes {
		if len(a.Outcomes) < 8192 {
			a.Outcomes[k] += v
		}
	}
	a.Violations = append(a.Violations, b.Violations...)
	a.NViol += b.NViol
	a.Diverged += b.Diverged
	a.Capped = a.Capped || b.Capped
	a.EnvDeviation += b.EnvDeviation
	if len(b.Sample) > len(a.Sample) {
		a.Sample = b.Sample
	}
}

func newSchedStats() *schedStats {
	return &schedStats{PoolSizes: map[string]int64{}, News: map[string]int64{}, Outcomes: map[string]int64{}}
}

// runSched runs a list of scenarios on `procs` worker processes (each scenario sharded over all of them).
func runSched(bin string, scenarios []string, bound int, procs int, maxExec int64, fine bool) (*schedStats, map[string]*schedStats, error) {
	per := map[string]*schedStats{}
	var mu sync.Mutex
	var firstErr error
	var wg sync.WaitGroup
	for sh := 0; sh < procs; sh++ {
		wg.Add(1)
		go func(sh int) {
			defer wg.Done()
			// command lines are limited: pass scenarios in batches
			for lo := 0; lo < len(scenarios); lo += 2000 {
				hi := lo + 2000
				if hi > len(scenarios) {
					hi = len(scenarios)
				}
				ctx, cancel := context.WithTimeout(context.Background(), 25*time.Minute)
				defer cancel()
				cmd := exec.CommandContext(ctx, bin, "explore", strings.Join(scenarios[lo:hi], ";"), strconv.Itoa(bound), strconv.Itoa(sh), strconv.Itoa(procs), strconv.FormatInt(maxExec, 10))
				cmd.Env = append(os.Environ(), "GOMAXPROCS=1")
				if fine {
					cmd.Env = append(cmd.Env, "VERIF_FINE=1")
				}
				var stderr bytes.Buffer
				cmd.Stderr = &stderr
				out, err := cmd.Output()
				if err != nil {
					mu.Lock()
					if firstErr == nil {
						firstErr = fmt.Errorf("explorer worker failed: %v: %s", err, stderr.String())
					}
					mu.Unlock()
					return
				}
				var res map[string]*schedStats
				if err := json.Unmarshal(out, &res); err != nil {
					mu.Lock()
					if firstErr == nil {
						firstErr = fmt.Errorf("explorer output: %v", err)
					}
					mu.Unlock()
					return
				}
				mu.Lock()
				for k, v := range res {
					if per[k] == nil {
						per[k] = newSchedStats()
					}
					per[k].merge(v)
				}
				mu.Unlock()
			}
		}(sh)
	}
	wg.Wait()
	tot := newSchedStats()
	for _, v := range per {
		tot.merge(v)
	}
	return tot, per, firstErr
}

// heavyBodies: bodies that perform more than 2 pool Get operations when run alone.
func heavyBodies(bin string) map[int]bool {
	out, err := exec.Command(bin, "bodies").Output()
	h := map[int]bool{}
	if err != nil {
		return h
	}
	var b []struct {
		Index int `json:"index"`
		Gets  int `json:"pool_gets"`
	}
	if json.Unmarshal(out, &b) != nil {
		return h
	}
	for _, x := range b {
		if x.Gets > 2 {
			h[x.Index] = true
		}
	}
	return h
}

// numBodies asks the explorer how many call bodies it has.
func numBodies(bin string) int {
	out, err := exec.Command(bin, "bodies").Output()
	if err != nil {
		return 0
	}
	var b []map[string]any
	if json.Unmarshal(out, &b) != nil {
		return 0
	}
	return len(b)
}

func multisets(menu []int, k int) [][]int {
	var out [][]int
	var rec func(start int, cur []int)
	rec = func(start int, cur []int) {
		if len(cur) == k {
			out = append(out, append([]int(nil), cur...))
			return
		}
		for i := start; i < len(menu); i++ {
			rec(i, append(cur, menu[i]))
		}
	}
	rec(0, nil)
	return out
}

func scnOf(threads ...[]int) string {
	var parts []string
	for _, t := range threads {
		var c []string
		for _, b := range t {
			c = append(c, strconv.Itoa(b))
		}
		parts = append(parts, strings.Join(c, ","))
	}
	return strings.Join(parts, "|")
}

// CheckC14 — no dependence on history, interleaving or aliasing.
func CheckC14(r *Report) {
	thorough := r.Tier == "thorough"
	r.Rule = "E4 sched: the four packages are rebuilt from the working tree with their `sync` import redirected (go build -overlay) to a shim whose Pool.Get/Put are scheduling points and whose Get answer (any pooled item or a fresh New) is an explored choice; a controlled scheduler runs one goroutine at a time and a stateless DFS with replay enumerates ALL schedules x pool answers of small harnesses (2-3 threads x 1-2 calls; all call histories up to a depth as 1-thread scenarios); oracle: every call returns what it returns alone in a fresh state, strings returned by Vector() never change, shared objects unchanged; every violation is replayed twice. Sequential histories beyond that depth: two fresh processes compute the same score tables (sub-lattices of every version, plus all single-Set neighbourhoods of a family of objects spread over the whole space, scored right after one another) in ascending resp. descending order and must agree entry by entry, and the first calls of each process must equal the same calls repeated after that history. Side pass (detector, not enumeration): same bodies free-running on 16 goroutines under -race. distinct = executions (each a distinct choice sequence)"
	tmp, err := os.MkdirTemp("", "verif-c14-")
	if err != nil {
		r.Note("cannot create scratch dir: %v", err)
		r.NotExhaustive("no scratch dir")
		return
	}
	if os.Getenv("VERIF_KEEP_TMP") == "" {
		defer os.RemoveAll(tmp)
	} else {
		r.Note("scratch dir kept: %s", tmp)
	}
	bin, instrumented, err := buildSched(tmp)
	r.SetExtra("instrumented_files", instrumented)
	total := newSchedStats()
	phase := map[string]any{}
	if err != nil {
		// never alarm because of the instrumentation itself
		r.Note("%v", err)
		r.NotExhaustive("the instrumented build failed (exotic use of package sync in the edited tree?); only the race pass was run")
	} else {
		fine := false
		add := func(name string, scenarios []string, bound int, maxExec int64) {
			if r.TooMany() {
				return
			}
			if maxExec == 0 {
				// safety net against a body menu / an edited tree that makes a phase explode: an execution cap per
				// worker process; hitting it is reported as exhaustive:false, never as an alarm
				maxExec = 1500000
				if thorough {
					maxExec = 40000000
				}
			}
			tot, per, err := runSched(bin, scenarios, bound, 16, maxExec, fine)
			if err != nil {
				r.Note("%s: %v", name, err)
				r.NotExhaustive(name + ": an explorer worker failed")
				return
			}
			if tot.Capped {
				r.NotExhaustive(name + ": execution cap hit; covered below the cap only")
			}
			var maxPer int64
			for _, p := range per {
				if p.Executions > maxPer {
					maxPer = p.Executions
				}
			}
			phase[name] = map[string]any{"scenarios": len(scenarios), "executions": tot.Executions, "schedule_points": tot.Points, "max_executions_in_one_scenario": maxPer,
				"deviation_bound": bound, "max_deviations_seen": tot.MaxPreempt, "final_pool_size_variants": len(tot.PoolSizes), "replay_divergences": tot.Diverged}
			total.merge(tot)
			if len(tot.Sample) > 0 {
				r.Sample(map[string]any{"phase": name, "execution": tot.Sample})
			}
			for _, v := range tot.Violations {
				ch := make([]string, len(v.Prefix))
				for i, c := range v.Prefix {
					ch[i] = strconv.Itoa(c)
				}
				r.Violation(Case{Kind: "schedule", Key: v.Key, Expected: "each call returns what it returns alone; returned strings immutable", Observed: v.What,
					Args: map[string]any{"scenario": v.Scenario, "choices": strings.Join(ch, ","), "fine_grained": fine}}, nil)
			}
			if tot.Diverged > 0 {
				r.Note("%s: %d executions diverged while replaying a recorded prefix (nondeterminism outside the scheduler's control); they were not judged", name, tot.Diverged)
				r.NotExhaustive(name + ": replay divergences")
			}
		}
		// body indices: see mc/bodies/bodies.go
		nb := numBodies(bin)
		if nb < 18 {
			r.Note("explorer reports %d bodies (expected >= 18)", nb)
			r.NotExhaustive("body menu incomplete")
			nb = 18
		}
		parseBodies := []int{0, 1, 2, 3, 4, 5, 6, 7, 8, 9, 10, 11}
		var allBodies []int
		for i := 0; i < nb; i++ {
			allBodies = append(allBodies, i)
		}
		// (1) 2 threads x 1 call: all unordered pairs of bodies; complete when both bodies make at most two pool
		// round trips, otherwise preemption bound 3 (bodies that parse several v2 vectors have too many points)
		heavy := heavyBodies(bin)
		var s, sHeavy []string
		for _, p := range multisets(allBodies, 2) {
			if heavy[p[0]] || heavy[p[1]] {
				sHeavy = append(sHeavy, scnOf([]int{p[0]}, []int{p[1]}))
			} else {
				s = append(s, scnOf([]int{p[0]}, []int{p[1]}))
			}
		}
		add("2 threads x 1 call (all pairs of light bodies, complete)", s, -1, 0)
		add("2 threads x 1 call (pairs with a multi-parse body, preemption bound 3)", sHeavy, 3, 0)
		// (2) call histories: every sequence of calls up to depth d as a 1-thread scenario (pool answers explored)
		depth := 3
		hist := allBodies
		if thorough {
			depth = 4
		}
		s = nil
		var rec func(cur []int)
		rec = func(cur []int) {
			if len(cur) > 0 {
				s = append(s, scnOf(cur))
			}
			if len(cur) == depth {
				return
			}
			cands := hist
			if len(cur) >= 3 && len(cands) > 29 {
				// the fourth call of a history is drawn from the first 29 bodies only (the ones that parse, serialise
				// and fail in every way); the one-call-only bodies added later take part in every history to depth 3.
				// 40^4 scenarios cost 14 GB in the explorer's per-scenario statistics.
				cands = cands[:29]
			}
			for _, b := range cands {
				rec(append(append([]int(nil), cur...), b))
			}
		}
		rec(nil)
		var sLight, sHeavyH []string
		for _, sc := range s {
			hv := false
			for _, c := range strings.Split(sc, ",") {
				bi, _ := strconv.Atoi(c)
				if heavy[bi] {
					hv = true
				}
			}
			if hv {
				sHeavyH = append(sHeavyH, sc)
			} else {
				sLight = append(sLight, sc)
			}
		}
		add(fmt.Sprintf("sequential histories of light bodies up to depth %d (complete, all pool answers)", depth), sLight, -1, 0)
		add(fmt.Sprintf("sequential histories containing a multi-parse body up to depth %d (at most 2 non-default pool answers)", depth), sHeavyH, 2, 0)
		// (3) 2 threads x 2 calls
		menu22 := []int{0, 1, 7, 12}
		if thorough {
			menu22 = []int{0, 1, 5, 7, 12}
		}
		s = nil
		for _, a := range menu22 {
			for _, b := range menu22 {
				for _, p := range multisets(menu22, 2) {
					s = append(s, scnOf([]int{a, b}, []int{p[0], p[1]}))
				}
			}
		}
		if thorough {
			add("2 threads x 2 calls (complete, no preemption bound)", s, -1, 0)
		} else {
			add("2 threads x 2 calls (preemption bound 2)", s, 2, 0)
		}
		// (4) 3 threads x 1 call
		s = nil
		if thorough {
			for _, p := range multisets([]int{0, 1, 5, 7, 12}, 3) {
				s = append(s, scnOf([]int{p[0]}, []int{p[1]}, []int{p[2]}))
			}
			add("3 threads x 1 call (complete, no preemption bound)", s, -1, 0)
		} else {
			for _, p := range multisets(parseBodies[:6], 3) {
				s = append(s, scnOf([]int{p[0]}, []int{p[1]}, []int{p[2]}))
			}
			add("3 threads x 1 call (preemption bound 2)", s, 2, 0)
		}
		if thorough {
			s = nil
			for _, p := range multisets([]int{0, 1, 7}, 4) {
				s = append(s, scnOf([]int{p[0]}, []int{p[1]}, []int{p[2]}, []int{p[3]}))
			}
			add("4 threads x 1 call (preemption bound 2)", s, 2, 0)
		}
		// (6) fine-grained mode: scheduling points also at the head of every loop body of the functions
		// that use the shared pool (inserted by the overlay generator), preemption-bounded
		fine = true
		s = nil
		for _, p := range multisets(parseBodies, 2) {
			s = append(s, scnOf([]int{p[0]}, []int{p[1]}))
		}
		fb := 2
		if thorough {
			fb = 3
		}
		add(fmt.Sprintf("2 threads x 1 call, loop-level scheduling points (preemption bound %d)", fb), s, fb, 0)
		s = nil
		for _, p := range multisets([]int{0, 1, 4, 7, 8}, 3) {
			s = append(s, scnOf([]int{p[0]}, []int{p[1]}, []int{p[2]}))
		}
		tb := 1
		if thorough {
			tb = 2
		}
		add(fmt.Sprintf("3 threads x 1 call, loop-level scheduling points (preemption bound %d)", tb), s, tb, 0)
		fine = false
		// vacuity guards: several pool-answer variants and several final pool sizes must have occurred
		if total.Executions > 0 && (len(total.PoolSizes) < 2 || total.EnvDeviation == 0) {
			r.Note("VACUITY WARNING: explorations never produced two pool outcomes (pool sizes %v, executions with a non-default pool answer %d): nothing collided", total.PoolSizes, total.EnvDeviation)
			r.NotExhaustive("vacuous exploration (no pool interaction observed)")
		}
	}
	// (8) cold-start concurrency: every explored execution is the FIRST activity of its own fresh process
	if err == nil {
		if cc := coldConcurrent(r, bin, thorough); cc != nil {
			phase["cold-start concurrency (one fresh process per execution, fine-grained points)"] = cc
		}
	}
	// (7) cold vs warm differential in a fresh process (empty history vs long history; ascending vs descending tables)
	if cw := runC14Cold(r); cw != nil {
		phase["cold vs warm differential (fresh process)"] = cw
	}
	// (5) race side pass
	raceBin := filepath.Join(tmp, "racepass")
	rargs := []string{"build", "-race", "-o", raceBin}
	if mf := os.Getenv("VERIF_MODFILE"); mf != "" {
		rargs = append(rargs, "-modfile="+mf)
	}
	cmd := exec.Command("go", append(rargs, "./cmd/racepass")...)
	cmd.Dir = filepath.Join(VerifDir, "mc")
	cmd.Env = goEnv()
	if out, berr := cmd.CombinedOutput(); berr != nil {
		r.Note("race pass not built: %v %s", berr, trunc(string(out), 300))
		r.NotExhaustive("race side pass unavailable")
	} else {
		iters := "3000"
		if thorough {
			iters = "40000"
		}
		rc := exec.Command(raceBin, iters)
		rc.Env = append(os.Environ(), "GORACE=halt_on_error=1 exitcode=66")
		out, rerr := rc.CombinedOutput()
		txt := string(out)
		phase["race side pass"] = map[string]any{"goroutines": 16, "iterations_per_goroutine": iters, "result": lastLine(txt)}
		switch {
		case strings.Contains(txt, "WARNING: DATA RACE"):
			r.Violation(Case{Kind: "race", Key: "data-race/" + raceSite(txt), Expected: "no data race between concurrent calls on package functions and distinct / shared read-only objects", Observed: trunc(txt, 1500),
				Args: map[string]any{"iterations": iters}}, nil)
		case strings.Contains(txt, "RACEPASS-VIOLATION"):
			for _, l := range strings.Split(txt, "\n") {
				if strings.HasPrefix(l, "RACEPASS-VIOLATION ") {
					parts := strings.SplitN(strings.TrimPrefix(l, "RACEPASS-VIOLATION "), " :: ", 2)
					r.Violation(Case{Kind: "race", Key: "free-running/" + parts[0], Expected: "each call returns what it returns alone", Observed: l, Args: map[string]any{"iterations": iters}}, nil)
				}
			}
		case rerr != nil:
			r.Note("race pass ended abnormally (not judged): %v %s", rerr, trunc(txt, 300))
			r.NotExhaustive("race side pass ended abnormally")
		}
	}
	r.SetExtra("phases", phase)
	r.SetExtra("final_pool_sizes_seen", total.PoolSizes)
	r.SetExtra("executions_with_non_default_pool_answer", total.EnvDeviation)
	r.SetExtra("distinct_schedule_signatures_recorded", len(total.Outcomes))
	r.States.Store(total.Executions)
	r.Transitions.Store(total.Points + total.Decisions)
	r.Traces.Store(total.Executions)
	r.Evaluations.Store(total.Executions)
	r.Distinct.Store(total.Executions)
	if r.States.Load() == 0 {
		r.States.Store(1)
		r.Transitions.Store(1)
	}
	r.Exhaustive = false
	r.Bound = "see phases: complete (no preemption bound) for 2 threads x 1 call of light bodies and for sequential histories to the stated depth; preemption-bounded elsewhere (bounds per phase; thorough raises them and completes 2x2 and 3x1); scheduling points at every sync and sync/atomic operation, in the fine-grained phases also at every loop head of the instrumented files; sequentially consistent interleavings"
	r.Assumptions = []string{"the only shared mutable state reachable from the API is behind package sync (unsynchronised sharing is looked for by the -race side pass, which is a detector run, not an enumeration)", "memory model: sequentially consistent interleavings at sync operations"}
}

func lastLine(s string) string {
	l := strings.Split(strings.TrimSpace(s), "\n")
	return l[len(l)-1]
}

// raceSite extracts a stable description of a race report (the first frames inside go-cvss).
func raceSite(txt string) string {
	var sites []string
	for _, l := range strings.Split(txt, "\n") {
		l = strings.TrimSpace(l)
		if strings.HasPrefix(l, "github.com/pandatix/go-cvss/") && strings.Contains(l, "(") {
			f := l[:strings.Index(l, "(")]
			f = strings.TrimPrefix(f, "github.com/pandatix/go-cvss/")
			sites = append(sites, f)
		}
	}
	sort.Strings(sites)
	var uniq []string
	for i, s := range sites {
		if i == 0 || s != sites[i-1] {
			uniq = append(uniq, s)
		}
	}
	if len(uniq) > 3 {
		uniq = uniq[:3]
	}
	return strings.Join(uniq, "+")
}

func init() {
	replayers["schedule"] = func(c *Case) string {
		tmp, err := os.MkdirTemp("", "verif-c14-")
		if err != nil {
			return err.Error()
		}
		defer os.RemoveAll(tmp)
		bin, _, err := buildSched(tmp)
		if err != nil {
			return err.Error()
		}
		rc := exec.Command(bin, "replay", argStr(c, "scenario"), argStr(c, "choices"))
		if cold, _ := c.Args["cold"].(bool); cold {
			// cold-start cases: the execution must be the first activity of the process
			rc = exec.Command(bin, "coldrun", argStr(c, "scenario"), argStr(c, "choices"))
			rc.Env = append(os.Environ(), "VERIF_FINE=1", "GOMAXPROCS=1")
			b, e := rc.Output()
			fmt.Print(string(b))
			var o coldRunOut
			if e != nil || json.Unmarshal(b, &o) != nil {
				return "cold replay could not be run"
			}
			exp, _ := exec.Command(bin, "bodies").Output()
			var bodies []struct {
				Index    int    `json:"index"`
				Isolated string `json:"isolated"`
			}
			json.Unmarshal(exp, &bodies)
			if len(o.Panics) > 0 || o.Deadlock || o.KeepBad != "" {
				return fmt.Sprint("cold-start execution misbehaves: ", o.Panics, o.Deadlock, o.KeepBad)
			}
			ti := 0
			for _, t := range strings.Split(argStr(c, "scenario"), "|") {
				for ci, cs := range strings.Split(t, ",") {
					bi, _ := strconv.Atoi(cs)
					if ti < len(o.Results) && ci < len(o.Results[ti]) && bi < len(bodies) && o.Results[ti][ci] != bodies[bi].Isolated {
						return fmt.Sprintf("thread %d call %d returned %q, alone %q", ti, ci, o.Results[ti][ci], bodies[bi].Isolated)
					}
				}
				ti++
			}
			return ""
		}
		if fg, _ := c.Args["fine_grained"].(bool); fg {
			rc.Env = append(os.Environ(), "VERIF_FINE=1")
		}
		out, rerr := rc.CombinedOutput()
		fmt.Print(string(out))
		if ee, ok := rerr.(*exec.ExitError); ok && ee.ExitCode() == 1 {
			return lastLine(string(out))
		}
		if rerr != nil {
			return "replay could not be run: " + rerr.Error()
		}
		return ""
	}
	replayers["race"] = func(c *Case) string {
		// re-run the free-running -race pass (it depends on a free-running schedule: a clean run here does not
		// prove absence, a report is a reproduction)
		tmp, err := os.MkdirTemp("", "verif-c14-")
		if err != nil {
			return ""
		}
		defer os.RemoveAll(tmp)
		raceBin := filepath.Join(tmp, "racepass")
		rargs := []string{"build", "-race", "-o", raceBin}
		if mf := os.Getenv("VERIF_MODFILE"); mf != "" {
			rargs = append(rargs, "-modfile="+mf)
		}
		cmd := exec.Command("go", append(rargs, "./cmd/racepass")...)
		cmd.Dir = filepath.Join(VerifDir, "mc")
		cmd.Env = goEnv()
		if out, berr := cmd.CombinedOutput(); berr != nil {
			fmt.Println("race pass not built:", berr, string(out))
			return ""
		}
		for attempt := 0; attempt < 3; attempt++ {
			rc := exec.Command(raceBin, "20000")
			rc.Env = append(os.Environ(), "GORACE=halt_on_error=1 exitcode=66")
			out, _ := rc.CombinedOutput()
			txt := string(out)
			if strings.Contains(txt, "WARNING: DATA RACE") {
				return "data race reported again: " + raceSite(txt)
			}
			if strings.Contains(txt, "RACEPASS-VIOLATION") {
				return "free-running pass reports again: " + lastLine(txt)
			}
		}
		return ""
	}
}

// Warm pre-builds the instrumented explorer and the -race side pass so that the Go build cache is hot.
func Warm() {
	tmp, err := os.MkdirTemp("", "verif-warm-")
	if err != nil {
		fmt.Println("warm:", err)
		return
	}
	defer os.RemoveAll(tmp)
	if _, _, err := buildSched(tmp); err != nil {
		fmt.Println("warm: instrumented build:", err)
	}
	cmd := exec.Command("go", "build", "-race", "-o", filepath.Join(tmp, "racepass"), "./cmd/racepass")
	cmd.Dir = filepath.Join(VerifDir, "mc")
	cmd.Env = goEnv()
	if out, err := cmd.CombinedOutput(); err != nil {
		fmt.Println("warm: race build:", err, string(out))
	}
	fmt.Println("warm ok")
}

type coldRunOut struct {
	Decisions []struct {
		N int  `json:"n"`
		C int  `json:"c"`
		S bool `json:"s"`
		P bool `json:"p"`
	} `json:"decisions"`
	Results  [][]string `json:"results"`
	Panics   []string   `json:"panics"`
	KeepBad  string     `json:"keep_bad"`
	Deadlock bool       `json:"deadlock"`
	Diverged bool       `json:"diverged"`
	Capped   bool       `json:"capped"`
}

// coldConcurrent explores schedules of 2-thread scenarios whose every execution runs as the first activity of a
// fresh process (lazily initialised state is cold), with fine-grained scheduling points, preemption-bounded.
// Stateless DFS across processes: run(prefix) = spawn `sched coldrun <scenario> <prefix>`.
func coldConcurrent(r *Report, bin string, thorough bool) map[string]any {
	type body struct {
		Index    int    `json:"index"`
		Name     string `json:"name"`
		Isolated string `json:"isolated"`
	}
	out, err := exec.Command(bin, "bodies").Output()
	var bodies []body
	if err != nil || json.Unmarshal(out, &bodies) != nil {
		r.NotExhaustive("cold-start concurrency: body list unavailable")
		return nil
	}
	var menu []int
	for _, b := range bodies {
		for _, want := range []string{"v2.shared.Vector+scores", "v3.1.Parse+Vector+scores", "v4.Parse+Vector+Score", "shared.v3.1+v4.Vector+scores", "scores of other objects built by Set", "Rating sequences A", "v2.Parse(14)", "v2.Parse(6)"} {
			if strings.HasPrefix(b.Name, want) {
				menu = append(menu, b.Index)
			}
		}
	}
	bound := 1
	if thorough {
		bound = 2
	}
	var scenarios []string
	// every body alone as the very first call of a fresh process: must return what it returns after the other
	// bodies have run (the isolated results are taken in body order inside one process, i.e. with history)
	for _, b := range bodies {
		scenarios = append(scenarios, scnOf([]int{b.Index}))
	}
	for _, p := range multisets(menu, 2) {
		scenarios = append(scenarios, scnOf([]int{p[0]}, []int{p[1]}))
	}
	type item struct {
		scn    string
		prefix []int
	}
	var mu sync.Mutex
	var execs, points, viol, capped int64
	// unbounded FIFO work list: the workers both consume and produce, a bounded channel can fill up and
	// block every one of them in a send (seen with code whose every atomic operation is a scheduling point)
	var qmu sync.Mutex
	qcond := sync.NewCond(&qmu)
	var work []item
	qhead, qclosed := 0, false
	push := func(it item) {
		qmu.Lock()
		work = append(work, it)
		qmu.Unlock()
		qcond.Signal()
	}
	pop := func() (item, bool) {
		qmu.Lock()
		defer qmu.Unlock()
		for qhead == len(work) && !qclosed {
			qcond.Wait()
		}
		if qhead == len(work) {
			return item{}, false
		}
		it := work[qhead]
		work[qhead] = item{}
		qhead++
		if qhead > 1<<16 && qhead*2 > len(work) {
			work = append([]item(nil), work[qhead:]...)
			qhead = 0
		}
		return it, true
	}
	var pending sync.WaitGroup
	cap := int64(40000)
	if thorough {
		cap = 400000
	}
	runOne := func(it item) {
		defer pending.Done()
		mu.Lock()
		if execs >= cap || r.TooMany() {
			capped++
			mu.Unlock()
			return
		}
		execs++
		mu.Unlock()
		ch := make([]string, len(it.prefix))
		for i, c := range it.prefix {
			ch[i] = strconv.Itoa(c)
		}
		cmd := exec.Command(bin, "coldrun", it.scn, strings.Join(ch, ","))
		cmd.Env = append(os.Environ(), "GOMAXPROCS=1", "VERIF_FINE=1")
		b, err := cmd.Output()
		var o coldRunOut
		if err != nil || json.Unmarshal(b, &o) != nil {
			r.Note("cold run failed for %s [%s]: %v", it.scn, strings.Join(ch, ","), err)
			return
		}
		mu.Lock()
		points += int64(len(o.Decisions))
		mu.Unlock()
		// oracle
		what := ""
		key := ""
		switch {
		case o.Diverged:
			// a divergence here means the cold process behaved differently for the same prefix: nondeterminism; not judged
			return
		case o.Deadlock:
			key, what = "deadlock@cold-start", "every live thread is blocked"
		case len(o.Panics) > 0:
			key, what = "panic@cold-start", strings.Join(o.Panics, "; ")
		case o.KeepBad != "":
			key, what = "returned-value-changed@cold-start", o.KeepBad
		default:
			ti := 0
			for _, t := range strings.Split(it.scn, "|") {
				for ci, c := range strings.Split(t, ",") {
					bi, _ := strconv.Atoi(c)
					if ti < len(o.Results) && ci < len(o.Results[ti]) && o.Results[ti][ci] != bodies[bi].Isolated {
						key = "result-depends-on-schedule@cold-start/" + bodies[bi].Name
						what = fmt.Sprintf("thread %d call %d (%s) returned %q when both threads make their first calls concurrently in a fresh process; alone it returns %q", ti, ci, bodies[bi].Name, o.Results[ti][ci], bodies[bi].Isolated)
						if !strings.Contains(it.scn, "|") {
							key = "result-depends-on-history@cold-start/" + bodies[bi].Name
							what = fmt.Sprintf("%s returned %q as the very first call of a fresh process; after the other calls have run in the process it returns %q", bodies[bi].Name, o.Results[ti][ci], bodies[bi].Isolated)
						}
					}
				}
				ti++
			}
		}
		if key != "" {
			mu.Lock()
			viol++
			mu.Unlock()
			r.Violation(Case{Kind: "schedule", Key: key, Expected: "each call returns what it returns alone", Observed: what,
				Args: map[string]any{"scenario": it.scn, "choices": strings.Join(ch, ","), "fine_grained": true, "cold": true}}, nil)
		}
		// children
		pre := 0
		for i := 0; i < len(o.Decisions); i++ {
			d := o.Decisions[i]
			if i >= len(it.prefix) {
				for alt := 1; alt < d.N; alt++ {
					c := pre
					if !d.S || d.P {
						c++ // a preemption, or a non-default pool answer
					}
					if c > bound {
						continue
					}
					np := make([]int, i+1)
					for k := 0; k < i; k++ {
						np[k] = o.Decisions[k].C
					}
					np[i] = alt
					mu.Lock()
					full := execs >= cap
					if full {
						capped++
					}
					mu.Unlock()
					if full {
						continue
					}
					pending.Add(1)
					push(item{it.scn, np})
				}
			}
			if d.C != 0 && (!d.S || d.P) {
				pre++
			}
		}
	}
	for w := 0; w < 16; w++ {
		go func() {
			for {
				it, ok := pop()
				if !ok {
					return
				}
				runOne(it)
			}
		}()
	}
	for _, s := range scenarios {
		pending.Add(1)
		push(item{s, nil})
	}
	pending.Wait()
	qmu.Lock()
	qclosed = true
	qmu.Unlock()
	qcond.Broadcast()
	if capped > 0 {
		r.NotExhaustive(fmt.Sprintf("cold-start concurrency: execution cap %d reached, %d subtrees not explored", cap, capped))
	}
	r.States.Add(execs)
	r.Traces.Add(execs)
	r.Transitions.Add(points)
	return map[string]any{"scenarios": len(scenarios), "executions_each_in_its_own_fresh_process": execs, "decisions": points, "deviation_bound": bound, "violations": viol}
}
