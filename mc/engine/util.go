package engine

import "fmt"

func boundText(p ObjPlan) string {
	return fmt.Sprintf("v2 complete=%v; t-wise t=%d; storage windows w<=%d (<=%d states); presence rotations=%d; 3 backgrounds", p.FullV2, p.T, p.W, p.WCap, p.Rotations)
}
