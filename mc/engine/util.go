package engine

import (
	"fmt"
	"sync/atomic"
)

func boundText(p ObjPlan) string {
	return fmt.Sprintf("v2 complete=%v; t-wise t=%d; storage windows w<=%d (<=%d states); presence rotations=%d; 3 backgrounds", p.FullV2, p.T, p.W, p.WCap, p.Rotations)
}

// Counter is a contention-free counter for hot loops: the shard is chosen from
// the enumeration index (chunks of 8192 consecutive indices share a shard).
type Counter [128]struct {
	n atomic.Int64
	_ [56]byte
}

func (c *Counter) Add(idx int, n int64) { c[(idx>>13)&127].n.Add(n) }
func (c *Counter) Load() int64 {
	var t int64
	for i := range c {
		t += c[i].n.Load()
	}
	return t
}
