package engine

import (
	"fmt"

	"verif/mc/spec"
)

// E3 scorespace, CVSS v3.0 / v3.1.

// v3ClassOf reads the effective class of a v3 assignment (Modified when defined, else base).
func v3ClassOf(a spec.Assignment) spec.V3Class {
	eff := func(base, mod int) int8 {
		if a[mod] != 0 { // index 0 = X; Modified lists are the base lists shifted by one
			return a[mod] - 1
		}
		return a[base]
	}
	return spec.V3Class{
		AV: eff(0, 14), AC: eff(1, 15), PR: eff(2, 16), UI: eff(3, 17), S: eff(4, 18), C: eff(5, 19), I: eff(6, 20), A: eff(7, 21),
		E: a[8], RL: a[9], RC: a[10], CR: a[11], IR: a[12], AR: a[13],
	}
}

// v3BaseClassOf: the class seen by BaseScore/TemporalScore (base metrics only).
func v3BaseClassOf(a spec.Assignment) spec.V3Class {
	return spec.V3Class{AV: a[0], AC: a[1], PR: a[2], UI: a[3], S: a[4], C: a[5], I: a[6], A: a[7], E: a[8], RL: a[9], RC: a[10]}
}

// v3CheckObj compares the five scoring methods of object o (assignment a) with the model.
func v3CheckObj[T comparable, P Object[T]](im *Impl[T, P], a spec.Assignment, o *T) (key, expected, observed string) {
	is31 := im.Ver == spec.V31
	tag := "v" + im.Ver.Name + "/"
	wb := spec.V3Score(v3BaseClassOf(a), is31)
	we := spec.V3Score(v3ClassOf(a), is31)
	var res [5]float64
	if p := Safely(func() {
		for i := range res {
			res[i] = im.Scores[i].F(o)
		}
	}); p != nil {
		return tag + "score/panic", "no panic", fmt.Sprint(p)
	}
	chk := func(name string, s float64, want, alt int, amb bool) (string, string, string) {
		k, ok := score10(s)
		if !ok {
			return tag + name + "/not-one-decimal", fmt.Sprintf("%.1f", float64(want)/10), fmt.Sprintf("%v", s)
		}
		if k != want && !(amb && k == alt) {
			return tag + name + "/wrong-score", fmt.Sprintf("%.1f", float64(want)/10), fmt.Sprintf("%.1f", s)
		}
		return "", "", ""
	}
	if k, x, y := chk("BaseScore", res[0], wb.Base, wb.Base, false); k != "" {
		return k, x, y
	}
	if k, x, y := chk("TemporalScore", res[1], wb.Temporal, wb.Temporal, false); k != "" {
		return k, x, y
	}
	if k, x, y := chk("EnvironmentalScore", res[2], we.Env, we.Env, false); k != "" {
		return k, x, y
	}
	if !relClose(res[3], wb.Impact) {
		return tag + "Impact/wrong", fmt.Sprintf("%.12g", wb.Impact), fmt.Sprintf("%.12g", res[3])
	}
	if !relClose(res[4], wb.Expl) {
		return tag + "Exploitability/wrong", fmt.Sprintf("%.12g", wb.Expl), fmt.Sprintf("%.12g", res[4])
	}
	return "", "", ""
}

// v3ClassDims: the 14 dims of the effective-class enumeration (base metrics, E RL RC, CR IR AR).
func v3ClassDims(ver *spec.Version) []Dim {
	return FullDims(ver, []int{0, 1, 2, 3, 4, 5, 6, 7, 8, 9, 10, 11, 12, 13})
}

func v3bg(ver *spec.Version) spec.Assignment {
	a := make(spec.Assignment, len(ver.Metrics))
	for i := range a {
		if !ver.Mandatory(i) {
			a[i] = int8(ver.NDIndex(i))
		}
	}
	return a
}

func sweepV3[T comparable, P Object[T]](r *Report, im *Impl[T, P]) {
	ver := im.Ver
	is31 := ver == spec.V31
	var nontrivial, altDiff, amb Counter
	dims3 := v3ClassDims(ver)
	Iterate(im, dims3, v3bg(ver), 16, func(idx int, a spec.Assignment, o *T) {
		if key, exp, obs := v3CheckObj(im, a, o); key != "" {
			iterViolation(r, im, dims3, v3bg(ver), 16, idx, a, "v3-score", key, exp, obs+" on "+P(o).Vector(), nil,
				func(a spec.Assignment, o *T) string { k, _, _ := v3CheckObj(im, a, o); return k })
		}
		w := spec.V3Score(v3ClassOf(a), is31)
		if w.Env != w.Base {
			nontrivial.Add(idx, 1)
		}
		if w.Env != w.EnvAlt || w.Base != w.BaseAlt || w.Temporal != w.TemporalAlt {
			altDiff.Add(idx, 1)
		}
		if w.Ambiguous {
			amb.Add(idx, 1)
		}
	}, iterBad(r, im, dims3, v3bg(ver), "v3-score"), r.TooMany)
	n := int64(16588800)
	r.States.Add(n)
	r.Transitions.Add(n * 5)
	r.Traces.Add(n)
	r.Distinct.Add(nontrivial.Load())
	r.SetExtra("v"+ver.Name+"_classes_where_the_two_Roundup_definitions_differ", altDiff.Load())
	r.SetExtra("v"+ver.Name+"_first_stage_values_where_Roundup_definitions_differ", spec.V3RoundupDisagreements(is31))
	r.SetExtra("v"+ver.Name+"_classes_with_exact_half_in_round_to_nearest", amb.Load())
}

// CheckC03 — v3.0/v3.1 scores equal the specification equations.
func CheckC03(r *Report) {
	ColdStart(r)
	r.Rule = "E3 scorespace: per version all 16,588,800 effective environmental classes (8 base metrics x E,RL,RC x CR,IR,AR, X a code of its own) built as canonical objects through Set; BaseScore, TemporalScore, EnvironmentalScore equal the exact rational/integer evaluation of the specification equations (PR by scope, 0.915 cap, version's ModifiedImpact, 10 cap, <=0 => 0, Roundup); Impact/Exploitability within 1e-9 relative; non-trivial = class whose environmental score differs from its base score"
	r.Bound = "complete for effective classes of both versions (2 x 16,588,800) in canonical representation; plus every class x one alternative representation per overridable metric (all 22 in thorough) and the all-overridden pattern; deeper representation bounds in C10"
	sweepV3(r, I30)
	sweepV3(r, I31)
	// lifting (shared with C10): every class x every single alternative representation of one overridable metric,
	// plus the all-overridden patterns; quick restricts RL/RC to 2 values each inside the lifted sweeps
	thorough := r.Tier == "thorough"
	each30 := func(a spec.Assignment, o *CVSS30T) (string, string, string) { return v3CheckObj(I30, a, o) }
	each31 := func(a spec.Assignment, o *CVSS31T) (string, string, string) { return v3CheckObj(I31, a, o) }
	for _, d := range v3Devs() {
		if !thorough && d.b != (d.m+1)%len(spec.V31.Metrics[d.m].Values) {
			continue // quick: one non-trivial base value per overridable metric
		}
		sweepV3Lift(r, I30, []v3Dev{d}, !thorough, each30)
		sweepV3Lift(r, I31, []v3Dev{d}, !thorough, each31)
	}
	sweepV3AllOverridden(r, I30, 1, each30)
	sweepV3AllOverridden(r, I31, 1, each31)
	r.Evaluations.Store(r.Transitions.Load())
	a, _ := spec.V31.Parse("CVSS:3.1/AV:A/AC:H/PR:L/UI:R/S:C/C:L/I:H/A:N/E:P/RL:T/RC:R/CR:H/IR:L/AR:M")
	w := spec.V3Score(v3ClassOf(a), true)
	r.Sample(map[string]any{"vector": spec.V31.Canon(a), "model_base": float64(w.Base) / 10, "model_temporal": float64(w.Temporal) / 10, "model_env": float64(w.Env) / 10})
	r.Assumptions = []string{"weights and equations transcribed from the v3.0 / v3.1 specification documents into mc/spec/score3.go", "v3.0 uses the 'smallest one-decimal number >= input' Roundup, v3.1 the appendix-A integer Roundup; the run reports on how many classes the two definitions differ", "objects are built through Set (checked by C07)"}
}

func init() {
	replayers["v3-score"] = func(c *Case) string {
		run := func(k, e, o string) string {
			if k == "" {
				return ""
			}
			return fmt.Sprintf("%s: expected %s; observed %s", k, e, o)
		}
		if argStr(c, "version") == "3.0" {
			a, o, err := objForReplay(I30, c)
			if err != nil {
				return err.Error()
			}
			return run(v3CheckObj(I30, a, &o))
		}
		a, o, err := objForReplay(I31, c)
		if err != nil {
			return err.Error()
		}
		return run(v3CheckObj(I31, a, &o))
	}
}
