package engine

import (
	"errors"
	"fmt"
	"math"
	"sync/atomic"

	gocvss30 "github.com/pandatix/go-cvss/30"
	gocvss31 "github.com/pandatix/go-cvss/31"
	gocvss40 "github.com/pandatix/go-cvss/40"

	"verif/mc/spec"
)

// ---------- C15: Rating follows the qualitative severity scale ----------

// ratingModel: the interval table of the specification's qualitative severity rating scale.
func ratingModel(s float64) (string, bool) {
	switch {
	case s < 0 || s > 10:
		return "", false
	case s < 0.1:
		return "NONE", true
	case s < 4.0:
		return "LOW", true
	case s < 7.0:
		return "MEDIUM", true
	case s < 9.0:
		return "HIGH", true
	}
	return "CRITICAL", true
}

type ratingPkg struct {
	name string
	f    func(float64) (string, error)
	oob  error
}

var ratingPkgs = []ratingPkg{
	{"3.0", gocvss30.Rating, gocvss30.ErrOutOfBoundsScore},
	{"3.1", gocvss31.Rating, gocvss31.ErrOutOfBoundsScore},
	{"4.0", gocvss40.Rating, gocvss40.ErrOutOfBoundsScore},
}

func ratingCheck(s float64) (key, exp, obs string) {
	want, in := ratingModel(s)
	for _, p := range ratingPkgs {
		var got string
		var err error
		if pv := Safely(func() { got, err = p.f(s) }); pv != nil {
			return "v" + p.name + "/Rating/panic", "no panic", fmt.Sprint(pv)
		}
		// the same score again, immediately: a pure function answers the same (memoised rejections, one-entry caches)
		got2, err2 := p.f(s)
		if got2 != got || (err2 == nil) != (err == nil) {
			return "v" + p.name + "/Rating/second-call-differs", fmt.Sprintf("(%q, %v) again", got, err), fmt.Sprintf("(%q, %v) on the second consecutive call", got2, err2)
		}
		if in {
			if err != nil || got != want {
				return "v" + p.name + "/Rating/wrong-rating-" + want, fmt.Sprintf("(%q, nil)", want), fmt.Sprintf("(%q, %v)", got, err)
			}
		} else if got != "" || !errors.Is(err, p.oob) {
			return "v" + p.name + "/Rating/out-of-bounds", `("", ErrOutOfBoundsScore)`, fmt.Sprintf("(%q, %v)", got, err)
		}
	}
	return "", "", ""
}

// CheckC15 — Rating follows the scale.
func CheckC15(r *Report) {
	r.Rule = "E5 numspace: Rating of the 3.0, 3.1 and 4.0 packages on (a) every one of the 2^32 float32 bit patterns widened to float64 (NaNs skipped), (b) every float64 within +-4096 ulps of 0, 0.1, 4.0, 7.0, 9.0, 10.0, (c) k/1000 for k in [-2000,12000], (d) the 101 one-decimal scores float64(k)/10, (e) +-0, +-Inf, +-MaxFloat64, smallest denormals; oracle = interval table of the specification scale, identical answers in the three packages, out of range => (\"\", ErrOutOfBoundsScore); distinct = distinct float64 values"
	var n atomic.Int64
	one := func(s float64) {
		n.Add(1)
		if k, e, o := ratingCheck(s); k != "" {
			r.Violation(Case{Kind: "rating", Key: k, Expected: e, Observed: o + fmt.Sprintf(" for score %.17g (bits %#x)", s, math.Float64bits(s)),
				Args: map[string]any{"bits": fmt.Sprintf("%#x", math.Float64bits(s))}}, func() bool { k2, _, _ := ratingCheck(s); return k2 != "" })
		}
	}
	// (a) all float32
	Parallel(1<<16, 16, func(hi int) {
		if r.TooMany() {
			return
		}
		var cnt int64
		for lo := 0; lo < 1<<16; lo++ {
			f := math.Float32frombits(uint32(hi)<<16 | uint32(lo))
			if f != f {
				continue
			}
			s := float64(f)
			cnt++
			if k, _, _ := ratingCheck(s); k != "" {
				one(s)
			}
		}
		n.Add(cnt)
	})
	r.SetExtra("float32_values", n.Load())
	// (b) ulp walks
	for _, t := range []float64{0, 0.1, 4.0, 7.0, 9.0, 10.0} {
		up, dn := t, t
		one(t)
		for i := 0; i < 4096; i++ {
			up = math.Nextafter(up, math.Inf(1))
			dn = math.Nextafter(dn, math.Inf(-1))
			one(up)
			one(dn)
		}
	}
	// (c) grid
	for k := -2000; k <= 12000; k++ {
		one(float64(k) / 1000)
	}
	// (d) one-decimal scores
	for k := 0; k <= 100; k++ {
		one(float64(k) / 10)
	}
	// (e) specials
	for _, s := range []float64{0, math.Copysign(0, -1), math.Inf(1), math.Inf(-1), math.MaxFloat64, -math.MaxFloat64, math.SmallestNonzeroFloat64, -math.SmallestNonzeroFloat64, 1e-300, -1e-300, 10.000000000000002, 9.999999999999998} {
		one(s)
	}
	r.States.Store(n.Load())
	r.Transitions.Store(n.Load() * 3)
	r.Traces.Store(n.Load())
	r.Evaluations.Store(n.Load() * 3)
	r.Distinct.Store(n.Load())
	r.Exhaustive = false
	r.Bound = "all 2^32 float32 values; +-4096 ulps around the six thresholds; the listed grids; float64 values that are neither float32-representable nor near a threshold are covered only by the grids (2^64 values cannot be enumerated; Rating is a chain of comparisons against six constants)"
	r.Sample(map[string]any{"score": 3.9999999999999996, "expected": "LOW"})
	r.Sample(map[string]any{"score": 4.0, "expected": "MEDIUM"})
	r.Sample(map[string]any{"score": 10.000000000000002, "expected": "ErrOutOfBoundsScore"})
	r.Assumptions = []string{"NaN is unspecified and skipped"}
}

func init() {
	replayers["rating"] = func(c *Case) string {
		var bits uint64
		fmt.Sscanf(argStr(c, "bits"), "%v", &bits)
		k, e, o := ratingCheck(math.Float64frombits(bits))
		if k == "" {
			return ""
		}
		return fmt.Sprintf("%s: expected %s; observed %s", k, e, o)
	}
}

// ---------- C16: v4 Nomenclature ----------

func nomenclatureModel(a spec.Assignment) string {
	ver := spec.V4
	n := "CVSS-B"
	t, e := false, false
	for i, m := range ver.Metrics {
		if int(a[i]) == ver.NDIndex(i) {
			continue
		}
		switch m.Group {
		case 1:
			t = true
		case 2:
			e = true
		}
	}
	if t {
		n += "T"
	}
	if e {
		n += "E"
	}
	return n
}

func nomCheck(a spec.Assignment, o *gocvss40.CVSS40) (key, exp, obs string) {
	want := nomenclatureModel(a)
	var got string
	before := *o
	if p := Safely(func() { got = o.Nomenclature() }); p != nil {
		return "v4.0/Nomenclature/panic", want, fmt.Sprint(p)
	}
	if got != want {
		return "v4.0/Nomenclature/want-" + want + "/got-" + got, want, got
	}
	if *o != before {
		return "v4.0/Nomenclature/mutates", "receiver unchanged", fmt.Sprint(*o)
	}
	return "", "", ""
}

// CheckC16 — v4 Nomenclature names exactly the metric groups in use.
func CheckC16(r *Report) {
	ver := spec.V4
	thorough := r.Tier == "thorough"
	r.Rule = "E2 objspace (odometer): Nomenclature() on (a) every subset of defined optional metrics (2^21) x value rotations x base backgrounds, (b) in thorough the full product of all 15 threat+environmental metrics (1,179,648,000 assignments) x 3 backgrounds of base+supplemental metrics, (c) every single supplemental/base value over all 2^15 threat/environmental presence patterns; oracle: CVSS-B + T iff E defined + E iff any of CR..MSA defined; distinct = distinct assignments"
	var n Counter
	var nontriv atomic.Int64
	mkfn := func(dims []Dim, bg spec.Assignment) func(idx int, a spec.Assignment, o *gocvss40.CVSS40) {
		return func(idx int, a spec.Assignment, o *gocvss40.CVSS40) {
			n.Add(idx, 1)
			if k, e, ob := nomCheck(a, o); k != "" {
				iterViolation(r, I40, dims, bg, 16, idx, a, "nomenclature", k, e, ob+" on "+o.Vector(), nil,
					func(a spec.Assignment, o *gocvss40.CVSS40) string { k2, _, _ := nomCheck(a, o); return k2 })
			}
		}
	}
	s40 := NewOS(I40, r)
	bgs := s40.Backgrounds()
	// (a) presence subsets
	rots := 2
	if thorough {
		rots = 4
	}
	for rot := 0; rot < rots; rot++ {
		var dims []Dim
		for mi, m := range ver.Metrics {
			if ver.Mandatory(mi) {
				continue
			}
			nd := ver.NDIndex(mi)
			k := 1 + (rot+mi)%(len(m.Values)-1)
			if k == nd {
				k = (k + 1) % len(m.Values)
			}
			dims = append(dims, Dim{M: mi, Vals: []int8{int8(nd), int8(k)}})
		}
		for _, bg := range bgs[:2] {
			Iterate(I40, dims, bg, 16, mkfn(dims, bg), iterBad(r, I40, dims, bg, "nomenclature"), r.TooMany)
		}
	}
	// (c) every value of every base and supplemental metric x all presence patterns of threat+environmental metrics
	for mi := range ver.Metrics {
		g := ver.Metrics[mi].Group
		if g != 0 && g != 3 {
			continue
		}
		dims := FullDims(ver, []int{mi})
		for k, m := range ver.Metrics {
			if m.Group == 1 || m.Group == 2 {
				dims = append(dims, Dim{M: k, Vals: []int8{int8(ver.NDIndex(k)), int8(len(m.Values) - 1)}})
			}
		}
		Iterate(I40, dims, bgs[0], 16, mkfn(dims, bgs[0]), iterBad(r, I40, dims, bgs[0], "nomenclature"), r.TooMany)
	}
	r.SetExtra("presence_states", n.Load())
	// (b) full product of the 15 threat + environmental metrics
	if thorough {
		var ms []int
		for k, m := range ver.Metrics {
			if m.Group == 1 || m.Group == 2 {
				ms = append(ms, k)
			}
		}
		for _, bg := range bgs {
			Iterate(I40, FullDims(ver, ms), bg, 16, mkfn(FullDims(ver, ms), bg), iterBad(r, I40, FullDims(ver, ms), bg, "nomenclature"), r.TooMany)
		}
	} else {
		// quick: full product of every window of 6 storage-adjacent threat/environmental metrics
		var ms []int
		for k, m := range ver.Metrics {
			if m.Group == 1 || m.Group == 2 {
				ms = append(ms, k)
			}
		}
		for st := 0; st+6 <= len(ms); st++ {
			Iterate(I40, FullDims(ver, ms[st:st+6]), bgs[st%3], 16, mkfn(FullDims(ver, ms[st:st+6]), bgs[st%3]), iterBad(r, I40, FullDims(ver, ms[st:st+6]), bgs[st%3], "nomenclature"), r.TooMany)
		}
	}
	_ = nontriv
	r.States.Store(n.Load())
	r.Transitions.Store(n.Load())
	r.Traces.Store(n.Load())
	r.Evaluations.Store(n.Load())
	r.Distinct.Store(n.Load())
	r.Exhaustive = thorough
	if thorough {
		r.Bound = "complete over the 15 threat+environmental metrics (1,179,648,000 assignments) x 3 base/supplemental backgrounds; all 2^21 presence subsets x 4 rotations x 2 backgrounds"
	} else {
		r.Bound = "all 2^21 presence subsets x 2 rotations x 2 backgrounds; full product of every window of 6 adjacent threat/environmental metrics; every base/supplemental value x 2^15 presence patterns"
	}
	a := definedRot(ver, 0)
	r.Sample(map[string]any{"vector": ver.Canon(a), "nomenclature": nomenclatureModel(a)})
	r.Assumptions = []string{"objects are built through Set (checked by C07); base/supplemental independence beyond the listed backgrounds rests on (c)"}
}

func init() {
	replayers["nomenclature"] = func(c *Case) string {
		a, o, err := objForReplay(I40, c)
		if err != nil {
			return err.Error()
		}
		k, e, ob := nomCheck(a, &o)
		if k == "" {
			return ""
		}
		return fmt.Sprintf("%s: expected %s; observed %s", k, e, ob)
	}
}
