package engine

import (
	"errors"
	"fmt"
	"sort"
	"strings"
	"sync"

	"verif/mc/spec"
)

// E2 "objspace": the packed objects as a transition system.
//
// States are metric assignments (spec.Assignment). The implementation state is
// the struct value itself (comparable). Transitions are Set(abv, value) calls,
// legal or not, and ParseVector(Vector()).

// Dim is one free metric of a sweep together with the values it ranges over.
type Dim struct {
	M    int
	Vals []int8
}

// Pred selects which predicates a sweep evaluates.
type Pred uint

const (
	PredRoundTrip  Pred = 1 << iota // C02: Parse(Vector(o)) == o, equal on every Get
	PredSetClosure                  // C07: every legal Set leads to the canonical successor, failed Set changes nothing
	PredWellFormed                  // C09: Get legal, Vector grammatical+canonical, scores do not panic
	PredIllegal                     // C07/C09/C18: illegal values / unknown abbreviations refused, object unchanged, error kind
	PredForeign                     // C13: Vector() of this version rejected by the other parsers
	PredErrKind                     // C18: the refusal carries the documented error value
	PredCanonical                   // C08: Vector() is the canonical spelling (C02/C09/C13 only need it grammatical and faithful)
)

type OS[T comparable, P Object[T]] struct {
	I    *Impl[T, P]
	R    *Report
	Zero spec.Assignment // the assignment read from the zero value
	// pools for illegal transitions
	BadVals [][]string // per metric: strings that are not legal values of it
	BadAbvs []string
	Foreign []func(string) bool                         // other versions' parsers: true when they accept
	Extra   func(a spec.Assignment, o *T, state string) // optional per-state hook (C16)
}

func NewOS[T comparable, P Object[T]](i *Impl[T, P], r *Report) *OS[T, P] {
	s := &OS[T, P]{I: i, R: r}
	var z T
	a, err := s.ReadAll(z)
	if err != nil {
		r.Violation(Case{Kind: "obj-ops", Key: "v" + i.Ver.Name + "/zero-value-ill-formed",
			Args:     map[string]any{"version": i.Ver.Name, "start": "zero", "ops": [][]string{}},
			Expected: "every Get on the zero value returns a legal value", Observed: err.Error()}, nil)
		// fall back to first values so that exploration can continue
		a = make(spec.Assignment, len(i.Ver.Metrics))
	}
	s.Zero = a
	s.BadVals, s.BadAbvs = illegalPools(i.Ver)
	return s
}

// illegalPools builds the small illegal alphabets used inside sweeps.
var (
	poolsMu    sync.Mutex
	poolsCache = map[*spec.Version]struct {
		v [][]string
		a []string
	}{}
)

func illegalPools(ver *spec.Version) (badVals [][]string, badAbvs []string) {
	poolsMu.Lock()
	defer poolsMu.Unlock()
	if c, ok := poolsCache[ver]; ok {
		return c.v, c.a
	}
	badVals, badAbvs = illegalPoolsBuild(ver)
	poolsCache[ver] = struct {
		v [][]string
		a []string
	}{badVals, badAbvs}
	return
}

func illegalPoolsBuild(ver *spec.Version) (badVals [][]string, badAbvs []string) {
	pool := map[string]bool{"": true, " ": true, "\x00": true, "XX": true, "x": true, "nd": true, "Nd": true}
	abvs := map[string]bool{"": true, " ": true, "\x00": true, "ZZ": true}
	for _, v := range spec.Versions {
		for _, m := range v.Metrics {
			abvs[m.Abv] = true
			abvs[strings.ToLower(m.Abv)] = true
			abvs[m.Abv+" "] = true
			abvs[" "+m.Abv] = true
			abvs[m.Abv+":"] = true
			abvs["M"+m.Abv] = true
			if len(m.Abv) > 1 {
				abvs[m.Abv[:len(m.Abv)-1]] = true
				abvs[m.Abv[1:]] = true
				abvs[m.Abv[:1]+strings.ToLower(m.Abv[1:])] = true
			}
			abvs[strings.ToUpper(m.Abv)] = true
			for _, val := range m.Values {
				pool[val] = true
				pool[strings.ToLower(val)] = true
				pool[strings.ToUpper(val)] = true
				pool[val+" "] = true
				pool[" "+val] = true
				pool[val+val] = true
				pool[val+"/"] = true
			}
		}
	}
	for a := range abvs {
		if ver.Index(a) < 0 {
			badAbvs = append(badAbvs, a)
		}
	}
	sortStrings(badAbvs)
	badVals = make([][]string, len(ver.Metrics))
	for mi := range ver.Metrics {
		for p := range pool {
			if ver.ValueIndex(mi, p) < 0 {
				badVals[mi] = append(badVals[mi], p)
			}
		}
		sortStrings(badVals[mi])
	}
	return
}

func sortStrings(s []string) { sort.Strings(s) }

// ReadAll reads an object through Get and translates it to a model assignment.
func (s *OS[T, P]) ReadAll(o T) (spec.Assignment, error) {
	ver := s.I.Ver
	a := make(spec.Assignment, len(ver.Metrics))
	for mi, m := range ver.Metrics {
		val, err := P(&o).Get(m.Abv)
		if err != nil {
			return nil, fmt.Errorf("Get(%q) returned error %v", m.Abv, err)
		}
		vi := ver.ValueIndex(mi, val)
		if vi < 0 {
			return nil, fmt.Errorf("Get(%q) returned %q which is not a value of the metric", m.Abv, val)
		}
		a[mi] = int8(vi)
	}
	return a, nil
}

// Build constructs the object of an assignment from the zero value by Set calls in table order.
func (s *OS[T, P]) Build(a spec.Assignment) (T, error) {
	var o T
	ver := s.I.Ver
	for mi, m := range ver.Metrics {
		if err := P(&o).Set(m.Abv, m.Values[a[mi]]); err != nil {
			return o, fmt.Errorf("Set(%q,%q) failed: %v", m.Abv, m.Values[a[mi]], err)
		}
	}
	return o, nil
}

// opsFor gives the Set sequence that builds assignment a from the zero value.
func (s *OS[T, P]) opsFor(a spec.Assignment) [][]string {
	var ops [][]string
	for mi, m := range s.I.Ver.Metrics {
		ops = append(ops, []string{"Set", m.Abv, m.Values[a[mi]]})
	}
	return ops
}

// RunOps is the slow, self-contained oracle used to confirm and to replay a
// case: it executes ops from the zero value (or from a parsed vector) and
// checks every step against the array model. It returns a description of the
// first discrepancy, or "".
func (s *OS[T, P]) RunOps(start string, ops [][]string, preds Pred) (key, expected, observed string) {
	ver := s.I.Ver
	var o T
	model := s.Zero.Clone()
	if start != "zero" && start != "" {
		po, err := s.I.Parse(start)
		mv, ok := ver.Parse(start)
		if err != nil || po == nil || !ok {
			return "start-not-parsed", "start vector accepted by model and implementation", fmt.Sprintf("impl err=%v model ok=%v", err, ok)
		}
		o = *po
		model = mv.Clone()
		// the operations below act on a COPY of the parsed object; at the end the parsed object itself and a
		// fresh parse of the same string must still hold the original values (no aliasing between results)
		defer func() {
			if key != "" {
				return
			}
			want, berr := s.Build(mv)
			if berr != nil {
				return
			}
			// edit the first result through its pointer, then parse again
			m0 := ver.Metrics[0]
			P(po).Set(m0.Abv, m0.Values[(int(mv[0])+1)%len(m0.Values)])
			if p2, e2 := s.I.Parse(start); e2 != nil || p2 == nil || *p2 != want {
				key, expected, observed = "parse-results-alias", "a later ParseVector of the same string is unaffected by Set on an earlier result", fmt.Sprintf("second parse of %s gives %v, want %v (err=%v)", start, p2, s.I.Describe(want), e2)
			}
		}()
	}
	var panicked any
	for step, op := range ops {
		abv, val := op[1], op[2]
		before := o
		var err error
		panicked = Safely(func() { err = P(&o).Set(abv, val) })
		if panicked != nil {
			return "Set-panic", "no panic", fmt.Sprintf("step %d Set(%q,%q) panicked: %v", step, abv, val, panicked)
		}
		mi := ver.Index(abv)
		switch {
		case mi < 0:
			if err == nil {
				return "Set(" + abv + ")/unknown-abbreviation-accepted", "error for unknown abbreviation", fmt.Sprintf("step %d Set(%q,%q) returned nil", step, abv, val)
			}
			if o != before {
				return "Set(" + abv + ")/failed-set-changed-object", "object unchanged", fmt.Sprintf("step %d Set(%q,%q): %v -> %v", step, abv, val, s.I.Describe(before), s.I.Describe(o))
			}
			if preds&PredErrKind != 0 {
				if got, ok := s.I.IsBadAbv(err); !ok || got != abv {
					return "Set(unknown)/wrong-error", fmt.Sprintf("*ErrInvalidMetric{Abv:%q}", abv), fmt.Sprintf("step %d Set(%q,%q) returned %T %v", step, abv, val, err, err)
				}
			}
		case ver.ValueIndex(mi, val) < 0:
			if err == nil {
				return "Set(" + abv + ")/illegal-value-accepted", "error for illegal value", fmt.Sprintf("step %d Set(%q,%q) returned nil", step, abv, val)
			}
			if o != before {
				return "Set(" + abv + ")/failed-set-changed-object", "object unchanged", fmt.Sprintf("step %d Set(%q,%q): %v -> %v", step, abv, val, s.I.Describe(before), s.I.Describe(o))
			}
			if preds&PredErrKind != 0 && !errors.Is(err, s.I.ErrValue) {
				return "Set(" + abv + ")/wrong-error", "ErrInvalidMetricValue", fmt.Sprintf("step %d Set(%q,%q) returned %T %v", step, abv, val, err, err)
			}
		default:
			if err != nil {
				return "Set(" + abv + "," + val + ")/legal-refused", "nil error", fmt.Sprintf("step %d Set(%q,%q) returned %v", step, abv, val, err)
			}
			model[mi] = int8(ver.ValueIndex(mi, val))
		}
		// every step: Get-all equals the model
		got, gerr := s.ReadAll(o)
		if gerr != nil {
			if preds&PredRoundTrip != 0 {
				// C02 speaks about every object obtainable through the API, also one that does not read back:
				// its Vector() must be accepted and parse to an equal object (no model needed for that)
				if k, e, ob := s.rawRoundTrip(o); k != "" {
					return k, e, fmt.Sprintf("step %d after Set(%q,%q): %s", step, abv, val, ob)
				}
			}
			if preds&(PredSetClosure|PredWellFormed) == 0 {
				return "", "", "" // an ill-formed object as such is C07's / C09's finding
			}
			return "Set(" + abv + ")/ill-formed-after", "well-formed object", fmt.Sprintf("step %d after Set(%q,%q): %v", step, abv, val, gerr)
		}
		if preds&PredSetClosure == 0 {
			// the other predicates speak about whatever object was reached: follow what it reads back as
			copy(model, got)
			continue
		}
		for i := range got {
			if got[i] != model[i] {
				return "Set(" + abv + ")/changes-" + ver.Metrics[i].Abv, fmt.Sprintf("after Set(%q,%q): %s=%s", abv, val, ver.Metrics[i].Abv, ver.Metrics[i].Values[model[i]]),
					fmt.Sprintf("step %d: Get(%q)=%q (object %v)", step, ver.Metrics[i].Abv, ver.Metrics[i].Values[got[i]], s.I.Describe(o))
			}
		}
	}
	// final: canonical object identity
	canon, err := s.Build(model)
	if err != nil {
		return "build-failed", "canonical build succeeds", err.Error()
	}
	if canon != o && preds&PredSetClosure != 0 {
		return "equal-assignments-not-==", "objects holding the same metric values are ==", fmt.Sprintf("history gives %v, canonical build gives %v", s.I.Describe(o), s.I.Describe(canon))
	}
	if k, e, ob := s.stateInvariants(model, o, preds); k != "" {
		return k, e, ob
	}
	return "", "", ""
}

// rawRoundTrip is C02 without a model: Vector() of o is accepted by the version's parser and the parsed object
// equals o under == and on every Get (same value, same error presence).
func (s *OS[T, P]) rawRoundTrip(o T) (key, expected, observed string) {
	ver := s.I.Ver
	var vec string
	oc := o
	if p := Safely(func() { vec = P(&oc).Vector() }); p != nil {
		return "Vector-panic", "no panic", fmt.Sprint(p)
	}
	var back *T
	var err error
	if p := Safely(func() { back, err = s.I.Parse(vec) }); p != nil {
		return "Parse-panic", "no panic", fmt.Sprint(p)
	}
	if err != nil || back == nil {
		return "roundtrip/rejected", "ParseVector(Vector()) accepted", fmt.Sprintf("Vector() = %q, err=%v (object %v)", vec, err, s.I.Describe(o))
	}
	if *back != o {
		return "roundtrip/not-equal", fmt.Sprintf("%v", s.I.Describe(o)), fmt.Sprintf("%v from %s", s.I.Describe(*back), vec)
	}
	for _, m := range ver.Metrics {
		v1, e1 := P(&oc).Get(m.Abv)
		v2, e2 := P(back).Get(m.Abv)
		if v1 != v2 || (e1 == nil) != (e2 == nil) {
			return "roundtrip/Get-differs-" + m.Abv, fmt.Sprintf("(%q, %v)", v1, e1), fmt.Sprintf("(%q, %v) after parsing %s", v2, e2, vec)
		}
	}
	return "", "", ""
}

// stateInvariants checks the per-state predicates on object o whose model assignment is a.
func (s *OS[T, P]) stateInvariants(a spec.Assignment, o T, preds Pred) (key, expected, observed string) {
	key, expected, observed, _ = s.stateInvariantsV(a, o, preds)
	return
}

// stateInvariantsV also returns the string Vector() returned (for the retained-string check of the sweeps).
func (s *OS[T, P]) stateInvariantsV(a spec.Assignment, o T, preds Pred) (key, expected, observed, vec string) {
	ver := s.I.Ver
	if preds&(PredRoundTrip|PredWellFormed|PredForeign|PredCanonical) != 0 {
		if p := Safely(func() { vec = P(&o).Vector() }); p != nil {
			return "Vector-panic", "no panic", fmt.Sprint(p), vec
		}
		if preds&PredCanonical != 0 {
			if want := ver.Canon(a); vec != want {
				return "Vector/not-canonical", want, vec, vec
			}
		} else if ra, ok := ver.Parse(vec); !ok {
			return "Vector/not-grammatical", "a well-formed v" + ver.Name + " vector (canonical spelling would be " + ver.Canon(a) + ")", vec, vec
		} else {
			for i := range ra {
				if ra[i] != a[i] {
					return "Vector/says-" + ver.Metrics[i].Abv + "-differently", ver.Metrics[i].Abv + ":" + ver.Metrics[i].Values[a[i]], "Vector() = " + vec, vec
				}
			}
		}
		if preds&PredRoundTrip != 0 {
			var back *T
			var err error
			if p := Safely(func() { back, err = s.I.Parse(vec) }); p != nil {
				return "Parse-panic", "no panic", fmt.Sprint(p), vec
			}
			if err != nil || back == nil {
				return "roundtrip/rejected", "ParseVector(Vector()) accepted: " + vec, fmt.Sprintf("err=%v", err), vec
			}
			if *back != o {
				return "roundtrip/not-equal", fmt.Sprintf("%v", s.I.Describe(o)), fmt.Sprintf("%v from %s", s.I.Describe(*back), vec), vec
			}
			ba, gerr := s.ReadAll(*back)
			if gerr != nil {
				return "roundtrip/ill-formed", "well-formed", gerr.Error(), vec
			}
			for i := range ba {
				if ba[i] != a[i] {
					return "roundtrip/Get-differs-" + ver.Metrics[i].Abv, ver.Metrics[i].Values[a[i]], ver.Metrics[i].Values[ba[i]], vec
				}
			}
			// independence of parse results: a second parse of the same string must not alias the first
			if back2, err2 := s.I.Parse(vec); err2 == nil && back2 != nil {
				m0 := ver.Metrics[0]
				alt := m0.Values[(int(a[0])+1)%len(m0.Values)]
				P(back).Set(m0.Abv, alt)
				lastM := ver.Metrics[len(ver.Metrics)-1]
				P(back).Set(lastM.Abv, lastM.Values[(int(a[len(a)-1])+1)%len(lastM.Values)])
				if *back2 != o {
					return "parse-results-alias", "objects returned by two ParseVector calls are independent", fmt.Sprintf("Set on the first result changed the second: %v (want %v) for %s", s.I.Describe(*back2), s.I.Describe(o), vec), vec
				}
				if back3, err3 := s.I.Parse(vec); err3 != nil || back3 == nil || *back3 != o {
					return "parse-results-alias", "a later ParseVector of the same string is unaffected by Set on an earlier result", fmt.Sprintf("third parse of %s gives %v err=%v", vec, back3, err3), vec
				}
			}
		}
		if preds&PredForeign != 0 {
			if own, oerr := s.I.Parse(vec); oerr != nil || own == nil {
				return "own-parser-rejects-Vector", "Vector() of v" + ver.Name + " accepted by the v" + ver.Name + " parser", fmt.Sprintf("%q: %v", vec, oerr), vec
			}
			for fi, f := range s.Foreign {
				if f(vec) {
					return fmt.Sprintf("foreign-accept/%d", fi), "Vector() of v" + ver.Name + " rejected by other versions' parsers", "accepted: " + vec, vec
				}
			}
		}
	}
	if preds&PredWellFormed != 0 {
		for _, sf := range s.I.Scores {
			oo := o
			if p := Safely(func() { sf.F(&oo) }); p != nil {
				return sf.Name + "-panic", "no panic", fmt.Sprint(p), vec
			}
			if oo != o {
				return sf.Name + "-mutates", "receiver unchanged", s.I.Describe(oo), vec
			}
		}
	}
	return "", "", "", vec
}

func (s *OS[T, P]) report(a spec.Assignment, op []string, preds Pred, fastKey, fastObs string) {
	ops := s.opsFor(a)
	if op != nil {
		ops = append(ops, op)
	}
	ver := s.I.Ver
	var key, exp, obs string
	re := func() bool {
		key, exp, obs = s.RunOps("zero", ops, preds)
		return key != ""
	}
	if !re() {
		// The fast path disagreed but the slow oracle does not reproduce it: report as an
		// internal inconsistency of the sweep (never as a violation).
		s.R.Note("fast/slow disagreement (not reported): v%s %s %s state=%s op=%v", ver.Name, fastKey, fastObs, ver.Full(a), op)
		return
	}
	c := Case{Kind: "obj-ops", Key: "v" + ver.Name + "/" + key, Expected: exp, Observed: obs,
		Args: map[string]any{"version": ver.Name, "start": "zero", "ops": ops, "preds": uint(preds), "state": ver.Full(a)}}
	c.GoTest = goTestForOps(ver, ops)
	s.R.Violation(c, re)
}

func goTestForOps(ver *spec.Version, ops [][]string) string {
	pk := map[string]string{"2.0": "gocvss20.CVSS20", "3.0": "gocvss30.CVSS30", "3.1": "gocvss31.CVSS31", "4.0": "gocvss40.CVSS40"}[ver.Name]
	var sb strings.Builder
	fmt.Fprintf(&sb, "var o %s\n", pk)
	for _, op := range ops {
		fmt.Fprintf(&sb, "_ = o.Set(%q, %q)\n", op[1], op[2])
	}
	sb.WriteString("// then compare o.Get(m) for every metric m, o.Vector() and ParseVector(o.Vector()) with the expectation\n")
	return sb.String()
}

// Sweep enumerates the full product of dims over background bg.
// workers: parallelism inside the sweep (1 when the caller parallelises over sweeps).
func (s *OS[T, P]) Sweep(dims []Dim, bg spec.Assignment, preds Pred, workers int) {
	ver := s.I.Ver
	n := 1
	stride := make([]int, len(dims)) // dims[0] is the fastest digit
	for j, d := range dims {
		stride[j] = n
		n *= len(d.Vals)
	}
	table := make([]T, n)
	bgObj, err := s.Build(bg)
	if err != nil {
		s.report(bg, nil, preds, "build", err.Error())
		return
	}
	// chunking
	chunk := 1 << 14
	if n < chunk*workers && workers > 1 {
		chunk = (n + workers - 1) / workers
	}
	nch := (n + chunk - 1) / chunk
	digits := func(idx int, dg []int) {
		for j, d := range dims {
			dg[j] = idx % len(d.Vals)
			idx /= len(d.Vals)
		}
	}
	// phase 1: build table by odometer inside each chunk
	Parallel(nch, workers, func(c int) {
		lo, hi := c*chunk, (c+1)*chunk
		if hi > n {
			hi = n
		}
		dg := make([]int, len(dims))
		digits(lo, dg)
		o := bgObj
		for j, d := range dims {
			m := ver.Metrics[d.M]
			P(&o).Set(m.Abv, m.Values[d.Vals[dg[j]]])
		}
		table[lo] = o
		for idx := lo + 1; idx < hi; idx++ {
			// increment odometer
			for j := 0; j < len(dims); j++ {
				dg[j]++
				if dg[j] == len(dims[j].Vals) {
					dg[j] = 0
				}
				m := ver.Metrics[dims[j].M]
				P(&o).Set(m.Abv, m.Values[dims[j].Vals[dg[j]]])
				if dg[j] != 0 {
					break
				}
			}
			table[idx] = o
		}
	})
	// phase 2: per state checks
	Parallel(nch, workers, func(c int) {
		lo, hi := c*chunk, (c+1)*chunk
		if hi > n {
			hi = n
		}
		dg := make([]int, len(dims))
		a := bg.Clone()
		var states, trans, traces int64
		var prevVec, prevClone string
		for idx := lo; idx < hi; idx++ {
			if s.R.TooMany() {
				break
			}
			digits(idx, dg)
			for j, d := range dims {
				a[d.M] = d.Vals[dg[j]]
			}
			o := table[idx]
			states++
			// the table entry really is the object of assignment a (Get-all vs model)
			bad := false
			for mi, m := range ver.Metrics {
				val, err := P(&o).Get(m.Abv)
				trans++
				if err != nil || val != m.Values[a[mi]] {
					bad = true
					break
				}
			}
			if bad {
				// Set did not produce the state of the model. That is C07's finding (closure sweeps). The other
				// predicates speak about whatever object was reached: they continue with the assignment the object
				// actually reads back as; an object that does not read back at all is ill formed (C09).
				if preds&PredSetClosure != 0 {
					s.report(a, nil, preds, "table-verify", "the object built by Set does not read back as the values set")
					continue
				}
				actual, rerr := s.ReadAll(o)
				if rerr != nil {
					if preds&PredWellFormed != 0 {
						// an object reached through legal Set calls that does not read back at all: reported with the
						// exact Set path of the sweep (canonical build of the background, then the odometer steps)
						s.reportPath(sweepPath(ver, dims, bg, lo, idx), preds, rerr.Error())
					} else if preds&PredRoundTrip != 0 {
						// not C02's business as such, but its Vector() must still be accepted and parse back to it
						if k, _, ob := s.rawRoundTrip(o); k != "" {
							s.reportPath(sweepPath(ver, dims, bg, lo, idx), preds, ob)
						}
					}
					continue
				}
				for i := range a {
					a[i] = actual[i] // (restored from dg at the next iteration)
				}
			}
			k, _, ob, vec := s.stateInvariantsV(a, o, preds)
			if k != "" {
				s.report(a, nil, preds, k, ob)
				continue
			}
			if vec != "" {
				// a string returned by Vector() must still read the same after later calls (checked one state later)
				if prevVec != prevClone {
					s.R.Violation(Case{Kind: "obj-retained", Key: "v" + ver.Name + "/Vector/returned-string-changed-later",
						Expected: "the string returned by Vector() keeps reading " + prevClone, Observed: "after serialising and parsing another object it reads " + strings.Clone(prevVec),
						Args: map[string]any{"version": ver.Name, "first": prevClone, "then": ver.Full(a)}}, nil)
				}
				prevVec, prevClone = vec, strings.Clone(vec)
			}
			if preds&(PredRoundTrip|PredWellFormed) != 0 {
				trans += 2
				traces++
			}
			if s.Extra != nil {
				s.Extra(a, &o, "")
			}
			if idx%4099 == 17 && s.R.WantSample() {
				smp := map[string]any{"version": ver.Name, "state": ver.Full(a), "object_bytes": s.I.Describe(o), "Vector": vec}
				if len(dims) > 0 {
					m := ver.Metrics[dims[0].M]
					succ := o
					v := m.Values[dims[0].Vals[(dg[0]+1)%len(dims[0].Vals)]]
					err := P(&succ).Set(m.Abv, v)
					smp["transition"] = fmt.Sprintf("Set(%q,%q) -> err=%v, successor bytes %s", m.Abv, v, err, s.I.Describe(succ))
				}
				s.R.Sample(smp)
			}
			if preds&PredSetClosure != 0 {
				for j, d := range dims {
					m := ver.Metrics[d.M]
					base := idx - dg[j]*stride[j]
					for k, vi := range d.Vals {
						succ := o
						err := P(&succ).Set(m.Abv, m.Values[vi])
						trans++
						if err != nil || succ != table[base+k*stride[j]] {
							s.report(a, []string{"Set", m.Abv, m.Values[vi]}, preds, "closure", fmt.Sprintf("err=%v succ=%v want=%v", err, s.I.Describe(succ), s.I.Describe(table[base+k*stride[j]])))
						}
					}
				}
			}
			if preds&PredIllegal != 0 {
				// a rotating slice of the illegal alphabets: every element is used across the sweep
				for j, d := range dims {
					m := ver.Metrics[d.M]
					bv := s.BadVals[d.M]
					for q := 0; q < 3; q++ {
						val := bv[(idx*3+q+j)%len(bv)]
						succ := o
						err := P(&succ).Set(m.Abv, val)
						trans++
						if err == nil || succ != o || (preds&PredErrKind != 0 && !errors.Is(err, s.I.ErrValue)) {
							s.report(a, []string{"Set", m.Abv, val}, preds, "illegal-value", fmt.Sprintf("err=%v", err))
						}
					}
				}
				for q := 0; q < 2; q++ {
					abv := s.BadAbvs[(idx*2+q)%len(s.BadAbvs)]
					val := ver.Metrics[dims[0].M].Values[0]
					succ := o
					err := P(&succ).Set(abv, val)
					trans++
					got, ok := "", false
					if err != nil {
						got, ok = s.I.IsBadAbv(err)
					}
					if err == nil || succ != o || (preds&PredErrKind != 0 && (!ok || got != abv)) {
						s.report(a, []string{"Set", abv, val}, preds, "unknown-abv", fmt.Sprintf("err=%v", err))
					}
					_, gerr := P(&succ).Get(abv)
					trans++
					if gerr == nil {
						s.reportGet(a, abv, "nil error")
					} else if got, ok := s.I.IsBadAbv(gerr); preds&PredErrKind != 0 && (!ok || got != abv) {
						s.reportGet(a, abv, fmt.Sprintf("%T %v", gerr, gerr))
					}
				}
			}
		}
		s.R.States.Add(states)
		s.R.Transitions.Add(trans)
		s.R.Traces.Add(traces)
	})
}

// sweepPath: the Set sequence by which phase 1 of Sweep reaches state idx of the chunk starting at lo.
func sweepPath(ver *spec.Version, dims []Dim, bg spec.Assignment, lo, idx int) [][]string {
	var ops [][]string
	for mi, m := range ver.Metrics {
		ops = append(ops, []string{"Set", m.Abv, m.Values[bg[mi]]})
	}
	dg := make([]int, len(dims))
	x := lo
	for j, d := range dims {
		dg[j] = x % len(d.Vals)
		x /= len(d.Vals)
		m := ver.Metrics[d.M]
		ops = append(ops, []string{"Set", m.Abv, m.Values[d.Vals[dg[j]]]})
	}
	for i := lo; i < idx; i++ {
		for j := 0; j < len(dims); j++ {
			dg[j]++
			if dg[j] == len(dims[j].Vals) {
				dg[j] = 0
			}
			m := ver.Metrics[dims[j].M]
			ops = append(ops, []string{"Set", m.Abv, m.Values[dims[j].Vals[dg[j]]]})
			if dg[j] != 0 {
				break
			}
		}
	}
	return ops
}

// reportPath reports a violation found on an explicit Set path (confirmed by re-executing that path).
func (s *OS[T, P]) reportPath(ops [][]string, preds Pred, fastObs string) {
	ver := s.I.Ver
	var key, exp, obs string
	re := func() bool {
		key, exp, obs = s.RunOps("zero", ops, preds)
		return key != ""
	}
	if !re() {
		s.R.Note("fast/slow disagreement (not reported): v%s %s", ver.Name, fastObs)
		return
	}
	// shorten: keep the canonical build and only the last k steps, for growing k
	nb := len(ver.Metrics)
	for k := 1; k < len(ops)-nb; k *= 2 {
		cand := append(append([][]string(nil), ops[:nb]...), ops[len(ops)-k:]...)
		if k2, _, _ := s.RunOps("zero", cand, preds); k2 == key {
			ops = cand
			break
		}
	}
	c := Case{Kind: "obj-ops", Key: "v" + ver.Name + "/" + key, Expected: exp, Observed: obs,
		Args: map[string]any{"version": ver.Name, "start": "zero", "ops": ops, "preds": uint(preds)}}
	c.GoTest = goTestForOps(ver, ops)
	s.R.Violation(c, func() bool { k2, _, _ := s.RunOps("zero", ops, preds); return k2 != "" })
}

func (s *OS[T, P]) reportGet(a spec.Assignment, abv, obs string) {
	ver := s.I.Ver
	c := Case{Kind: "obj-get", Key: "v" + ver.Name + "/Get(unknown)/wrong-result", Expected: fmt.Sprintf("*ErrInvalidMetric{Abv:%q}", abv), Observed: obs,
		Args: map[string]any{"version": ver.Name, "state": ver.Full(a), "abv": abv}}
	s.R.Violation(c, nil)
}

// FullDims returns dims covering all values of the given metrics.
func FullDims(ver *spec.Version, ms []int) []Dim {
	d := make([]Dim, len(ms))
	for i, m := range ms {
		vals := make([]int8, len(ver.Metrics[m].Values))
		for k := range vals {
			vals[k] = int8(k)
		}
		d[i] = Dim{M: m, Vals: vals}
	}
	return d
}

// Backgrounds returns the standard backgrounds: zero value, all last values, alternating.
func (s *OS[T, P]) Backgrounds() []spec.Assignment {
	ver := s.I.Ver
	last := make(spec.Assignment, len(ver.Metrics))
	altn := make(spec.Assignment, len(ver.Metrics))
	for i, m := range ver.Metrics {
		last[i] = int8(len(m.Values) - 1)
		altn[i] = int8((i*7 + 1) % len(m.Values))
	}
	return []spec.Assignment{s.Zero.Clone(), last, altn}
}

// Combinations calls f with every k-subset of [0,n).
func Combinations(n, k int, f func([]int)) {
	idx := make([]int, k)
	var rec func(start, d int)
	rec = func(start, d int) {
		if d == k {
			f(idx)
			return
		}
		for i := start; i <= n-(k-d); i++ {
			idx[d] = i
			rec(i+1, d+1)
		}
	}
	rec(0, 0)
}
