package engine

import (
	"fmt"
	"math"

	gocvss31 "github.com/pandatix/go-cvss/31"
	gocvss40 "github.com/pandatix/go-cvss/40"
)

// modMetric is one overridable base metric with its values in ascending severity.
type modMetric struct {
	abv   string
	vals  []string // ascending severity; Modified twin additionally accepts extra (more severe than all)
	extra []string
}

var mod31 = []modMetric{
	{"AV", []string{"P", "L", "A", "N"}, nil}, {"AC", []string{"H", "L"}, nil}, {"PR", []string{"H", "L", "N"}, nil}, {"UI", []string{"R", "N"}, nil},
	{"S", []string{"U", "C"}, nil}, {"C", []string{"N", "L", "H"}, nil}, {"I", []string{"N", "L", "H"}, nil}, {"A", []string{"N", "L", "H"}, nil},
}

var mod40 = []modMetric{
	{"AV", []string{"P", "L", "A", "N"}, nil}, {"AC", []string{"H", "L"}, nil}, {"AT", []string{"P", "N"}, nil}, {"PR", []string{"H", "L", "N"}, nil}, {"UI", []string{"A", "P", "N"}, nil},
	{"VC", []string{"N", "L", "H"}, nil}, {"VI", []string{"N", "L", "H"}, nil}, {"VA", []string{"N", "L", "H"}, nil},
	{"SC", []string{"N", "L", "H"}, nil}, {"SI", []string{"N", "L", "H"}, []string{"S"}}, {"SA", []string{"N", "L", "H"}, []string{"S"}},
}

// modifiedMono walks the one-metric neighbourhood ACROSS the representation boundary, which the effective-class
// tables cannot see: from every object whose Modified metrics are all X (so every overridable metric takes
// its base value b), defining one Modified metric as v must not lower the environmental score when v is more
// severe than b and must not raise it when v is less severe. X ranks with the value it resolves to.
// The space is complete for base metrics x (CR,IR,AR) in v3.1 and base metrics x E in v4.0.
func modifiedMono(r *Report) {
	tenths := func(s float64) int {
		if k, ok := score10(s); ok {
			return k
		}
		return int(math.Round(s * 10))
	}
	// ---- v3.1 EnvironmentalScore
	{
		rad := make([]int, 0, 11)
		for _, m := range mod31 {
			rad = append(rad, len(m.vals))
		}
		req := []string{"X", "L", "M", "H"}
		rad = append(rad, 4, 4, 4)
		n := 1
		for _, k := range rad {
			n *= k
		}
		chunk := 1 << 10
		Parallel((n+chunk-1)/chunk, 16, func(ci int) {
			var pairs, strict int64
			for idx := ci * chunk; idx < (ci+1)*chunk && idx < n; idx++ {
				var o gocvss31.CVSS31
				x := idx
				dg := make([]int, len(rad))
				for j := range rad {
					dg[j] = x % rad[j]
					x /= rad[j]
				}
				bad := false
				for j, m := range mod31 {
					bad = bad || o.Set(m.abv, m.vals[dg[j]]) != nil
				}
				for j, a := range []string{"CR", "IR", "AR"} {
					bad = bad || o.Set(a, req[dg[8+j]]) != nil
				}
				if bad {
					continue // C07/C09's business
				}
				var s0 float64
				if Safely(func() { s0 = o.EnvironmentalScore() }) != nil {
					continue
				}
				k0 := tenths(s0)
				for j, m := range mod31 {
					for vi, v := range m.vals {
						if vi == dg[j] {
							continue
						}
						o2 := o
						if o2.Set("M"+m.abv, v) != nil {
							continue
						}
						var s2 float64
						if Safely(func() { s2 = o2.EnvironmentalScore() }) != nil {
							continue
						}
						k2 := tenths(s2)
						pairs++
						if k2 != k0 {
							strict++
						}
						if (vi > dg[j] && k2 < k0) || (vi < dg[j] && k2 > k0) {
							less, set, val := o, "M"+m.abv, v
							if vi < dg[j] {
								less, val = o2, "X"
							}
							r.Violation(Case{Kind: "mono", Key: "v3.1/EnvironmentalScore/decreases-on-M" + m.abv + "-across-X",
								Expected: fmt.Sprintf("M%s:X resolves to %s:%s; defining M%s:%s moves EnvironmentalScore in the direction of the severity change", m.abv, m.abv, m.vals[dg[j]], m.abv, v),
								Observed: fmt.Sprintf("%.1f on %s, %.1f on %s", float64(k0)/10, o.Vector(), float64(k2)/10, o2.Vector()),
								Args:     map[string]any{"version": "3.1", "vector": less.Vector(), "metric": set, "value": val, "method": "EnvironmentalScore"}}, nil)
						}
					}
				}
			}
			r.Transitions.Add(pairs)
			r.Distinct.Add(strict)
		})
	}
	// ---- v4.0 Score
	{
		rad := make([]int, 0, 12)
		for _, m := range mod40 {
			rad = append(rad, len(m.vals))
		}
		ev := []string{"X", "U", "P"}
		rad = append(rad, len(ev))
		n := 1
		for _, k := range rad {
			n *= k
		}
		chunk := 1 << 10
		Parallel((n+chunk-1)/chunk, 16, func(ci int) {
			var pairs, strict int64
			for idx := ci * chunk; idx < (ci+1)*chunk && idx < n; idx++ {
				var o gocvss40.CVSS40
				x := idx
				dg := make([]int, len(rad))
				for j := range rad {
					dg[j] = x % rad[j]
					x /= rad[j]
				}
				bad := false
				for j, m := range mod40 {
					bad = bad || o.Set(m.abv, m.vals[dg[j]]) != nil
				}
				bad = bad || o.Set("E", ev[dg[11]]) != nil
				if bad {
					continue
				}
				s0, p := v4ImplScore(&o)
				if p != nil {
					continue
				}
				k0 := tenths(s0)
				for j, m := range mod40 {
					all := append(append([]string{}, m.vals...), m.extra...)
					for vi, v := range all {
						if vi == dg[j] {
							continue
						}
						o2 := o
						if o2.Set("M"+m.abv, v) != nil {
							continue
						}
						s2, p := v4ImplScore(&o2)
						if p != nil {
							continue
						}
						k2 := tenths(s2)
						pairs++
						if k2 != k0 {
							strict++
						}
						if (vi > dg[j] && k2 < k0) || (vi < dg[j] && k2 > k0) {
							less, more := o.Vector(), o2.Vector()
							if vi < dg[j] {
								less, more = more, less
							}
							r.Violation(Case{Kind: "mono-v4", Key: "v4.0/Score/decreases-on-M" + m.abv + "-across-X",
								Expected: fmt.Sprintf("M%s:X resolves to %s:%s; defining M%s:%s moves Score in the direction of the severity change", m.abv, m.abv, m.vals[dg[j]], m.abv, v),
								Observed: fmt.Sprintf("%.1f on %s, %.1f on %s", float64(k0)/10, o.Vector(), float64(k2)/10, o2.Vector()),
								Args:     map[string]any{"less": less, "more": more}}, nil)
						}
					}
				}
			}
			r.Transitions.Add(pairs)
			r.Distinct.Add(strict)
		})
	}
}
