package engine

import (
	"bufio"
	"encoding/json"
	"fmt"
	"math/bits"
	"os"
	"os/exec"
	"runtime"
	"runtime/debug"
	"strings"
	"sync"

	gocvss30 "github.com/pandatix/go-cvss/30"
	gocvss31 "github.com/pandatix/go-cvss/31"
	gocvss40 "github.com/pandatix/go-cvss/40"

	"verif/mc/spec"
)

// C17 — the documented allocation budget, measured per call.
//
// Measurement: runtime.ReadMemStats Mallocs delta around ONE call, in a worker
// process with GOMAXPROCS(1) and the GC switched off (so the v2 split pool is
// never cleared: steady state), after one warm-up call; minimum of 3
// repetitions (a real allocation is deterministic and shows in every
// repetition, background noise is additive); a case over budget is re-measured
// 20 times before it is reported.

var (
	sinkS string
	sinkE error
	sinkF float64
	sinkP any
)

func mallocsOf(reps int, f func()) uint64 {
	var m1, m2 runtime.MemStats
	best := ^uint64(0)
	for i := 0; i < reps; i++ {
		runtime.ReadMemStats(&m1)
		f()
		runtime.ReadMemStats(&m2)
		if d := m2.Mallocs - m1.Mallocs; d < best {
			best = d
		}
		if best == 0 {
			break
		}
	}
	return best
}

// mallocsAfter measures f where every repetition is preceded by an unmeasured call of pre
// (history dependence of the budget, e.g. a rejected parse that does not hand its buffer back).
func mallocsAfter(reps int, pre, f func()) uint64 {
	var m1, m2 runtime.MemStats
	best := ^uint64(0)
	for i := 0; i < reps; i++ {
		pre()
		runtime.ReadMemStats(&m1)
		f()
		runtime.ReadMemStats(&m2)
		if d := m2.Mallocs - m1.Mallocs; d < best {
			best = d
		}
		if best == 0 {
			break
		}
	}
	return best
}

type c17Viol struct {
	Key, Expected, Observed string
	Args                    map[string]any
}

type c17Out struct {
	Cases      int64            `json:"cases"`
	Objects    int64            `json:"objects"`
	Hist       map[string]int64 `json:"hist"` // "<call>=<allocs>" -> count
	Violations []c17Viol        `json:"violations"`
	Samples    []string         `json:"samples"`
}

type c17Worker struct {
	out   c17Out
	shard int
	n     int
	ctr   int64
}

func (w *c17Worker) mine() bool {
	w.ctr++
	return int(w.ctr%int64(w.n)) == w.shard
}

// measure records one measured call. lo..hi is the budget.
func (w *c17Worker) measure(ver, call, what string, lo, hi uint64, f func()) {
	f() // warm-up
	got := mallocsOf(3, f)
	w.out.Cases++
	w.out.Hist[fmt.Sprintf("v%s %s=%d", ver, call, got)]++
	if got < lo || got > hi {
		got = mallocsOf(20, f)
		if got < lo || got > hi {
			if len(w.out.Violations) < 50 {
				w.out.Violations = append(w.out.Violations, c17Viol{
					Key:      fmt.Sprintf("v%s/%s/allocs=%d", ver, call, got),
					Expected: fmt.Sprintf("between %d and %d heap allocations", lo, hi),
					Observed: fmt.Sprintf("%d allocations (minimum of 20 measurements) for %s", got, what),
					Args:     map[string]any{"version": ver, "call": call, "what": what},
				})
			}
		}
	}
}

// measureAfter: like measure, with an unmeasured preceding call.
func (w *c17Worker) measureAfter(ver, call, what string, lo, hi uint64, pre, f func()) {
	f()
	got := mallocsAfter(3, pre, f)
	w.out.Cases++
	w.out.Hist[fmt.Sprintf("v%s %s=%d", ver, call, got)]++
	if got < lo || got > hi {
		got = mallocsAfter(20, pre, f)
		if got < lo || got > hi {
			if len(w.out.Violations) < 50 {
				w.out.Violations = append(w.out.Violations, c17Viol{
					Key:      fmt.Sprintf("v%s/%s/allocs=%d", ver, call, got),
					Expected: fmt.Sprintf("between %d and %d heap allocations", lo, hi),
					Observed: fmt.Sprintf("%d allocations (minimum of 20 measurements) for %s", got, what),
					Args:     map[string]any{"version": ver, "call": call, "what": what},
				})
			}
		}
	}
}

func c17Objects[T comparable, P Object[T]](w *c17Worker, im *Impl[T, P], o T, scores bool, extra func(o *T)) {
	ver := im.Ver.Name
	vec := P(&o).Vector()
	w.out.Objects++
	if len(w.out.Samples) < 3 {
		w.out.Samples = append(w.out.Samples, vec)
	}
	w.measure(ver, "Vector", vec, 1, 1, func() { sinkS = P(&o).Vector() })
	w.measure(ver, "ParseVector", vec, 0, 1, func() { p, e := im.Parse(vec); sinkP, sinkE = p, e })
	if scores {
		for _, sf := range im.Scores {
			sf := sf
			w.measure(ver, sf.Name, vec, 0, 0, func() { sinkF = sf.F(&o) })
		}
		if extra != nil {
			extra(&o)
		}
	}
}

// presenceObjects enumerates every subset of defined optional metrics with rotating values.
func c17Presence[T comparable, P Object[T]](w *c17Worker, im *Impl[T, P], rots int, keep func(size int) bool, scoreEvery int, extra func(o *T)) {
	ver := im.Ver
	var opt []int
	for i := range ver.Metrics {
		if !ver.Mandatory(i) {
			opt = append(opt, i)
		}
	}
	for rot := 0; rot < rots; rot++ {
		for set := 0; set < 1<<len(opt); set++ {
			if !keep(bits.OnesCount(uint(set))) {
				continue
			}
			if !w.mine() {
				continue
			}
			var o T
			for i, m := range ver.Metrics {
				if ver.Mandatory(i) {
					P(&o).Set(m.Abv, m.Values[(rot+set+i)%len(m.Values)])
				}
			}
			for k, mi := range opt {
				m := ver.Metrics[mi]
				if set&(1<<k) == 0 {
					continue
				}
				nd := ver.NDIndex(mi)
				v := (rot + set + k) % (len(m.Values) - 1)
				if v >= nd {
					v++
				}
				P(&o).Set(m.Abv, m.Values[v])
			}
			c17Objects(w, im, o, scoreEvery > 0 && set%scoreEvery == 0, extra)
		}
	}
}

func c17GetSet[T comparable, P Object[T]](w *c17Worker, im *Impl[T, P]) {
	ver := im.Ver
	for rot := 0; rot < 3; rot++ {
		a := rotAssign(ver, rot)
		var o T
		for i, m := range ver.Metrics {
			P(&o).Set(m.Abv, m.Values[a[i]])
		}
		for _, m := range ver.Metrics {
			if !w.mine() {
				continue
			}
			abv := m.Abv
			w.measure(ver.Name, "Get", abv, 0, 0, func() { sinkS, sinkE = P(&o).Get(abv) })
			for _, val := range m.Values {
				val := val
				oo := o
				w.measure(ver.Name, "Set(legal)", abv+":"+val, 0, 0, func() { sinkE = P(&oo).Set(abv, val) })
			}
			for _, val := range []string{"", "ZZ", "x", "a-rather-long-illegal-value-to-defeat-small-string-tricks"} {
				val := val
				oo := o
				w.measure(ver.Name, "Set(illegal)", abv+":"+val, 0, 0, func() { sinkE = P(&oo).Set(abv, val) })
			}
		}
	}
}

// c17ScoreBatches measures the zero-allocation budget of the scoring methods on a whole indexed family of
// objects (every effective class of a version): objects are built in batches of 4096, every scoring method is
// called once on every object of the batch unmeasured (steady state), then again between two readings of the
// Mallocs counter. A batch that allocates nothing is settled (the budget is 0, so the sum is exact); a batch
// that allocates is re-measured object by object through measure().
func c17ScoreBatches[T comparable, P Object[T]](w *c17Worker, im *Impl[T, P], n, every int, build func(idx int, o *T) bool, extra func(o *T)) {
	const B = 4096
	ver := im.Ver.Name
	objs := make([]T, 0, B)
	run := func() {
		for i := range objs {
			for _, sf := range im.Scores {
				sinkF = sf.F(&objs[i])
			}
			if extra != nil {
				extra(&objs[i])
			}
		}
	}
	for b := 0; b*B < n; b++ {
		if b%every != 0 || !w.mine() {
			continue
		}
		objs = objs[:0]
		for idx := b * B; idx < (b+1)*B && idx < n; idx++ {
			var o T
			if build(idx, &o) {
				objs = append(objs, o)
			}
		}
		if p := Safely(run); p != nil {
			w.out.Hist["v"+ver+" scoring panicked in a batch (not measured)"]++
			continue
		}
		got := mallocsOf(3, run)
		w.out.Cases += int64(len(objs) * len(im.Scores))
		w.out.Objects += int64(len(objs))
		if got == 0 {
			w.out.Hist["v"+ver+" scores(batched)=0"] += int64(len(objs) * len(im.Scores))
			continue
		}
		w.out.Hist["v"+ver+" batches re-measured per object"]++
		for i := range objs {
			if len(w.out.Violations) >= 50 {
				break
			}
			o := objs[i]
			vec := P(&o).Vector()
			for _, sf := range im.Scores {
				sf := sf
				w.measure(ver, sf.Name, vec, 0, 0, func() { sinkF = sf.F(&o) })
			}
			if extra != nil {
				w.measure(ver, "Nomenclature", vec, 0, 0, func() { extra(&o) })
			}
		}
	}
}

// c17ClassBuilder builds the canonical object of class idx of the full product of the given metrics.
func c17ClassBuilder[T comparable, P Object[T]](im *Impl[T, P], ms []int) (int, func(idx int, o *T) bool) {
	ver := im.Ver
	bg := v3bg(ver)
	n := 1
	for _, m := range ms {
		n *= len(ver.Metrics[m].Values)
	}
	return n, func(idx int, o *T) bool {
		for mi, m := range ver.Metrics {
			if P(o).Set(m.Abv, m.Values[bg[mi]]) != nil {
				return false
			}
		}
		for _, m := range ms {
			vals := ver.Metrics[m].Values
			if P(o).Set(ver.Metrics[m].Abv, vals[idx%len(vals)]) != nil {
				return false
			}
			idx /= len(vals)
		}
		return true
	}
}

// C17Worker is the entry point of one measuring process.
func C17Worker(shard, n int, tier string) {
	runtime.GOMAXPROCS(1)
	debug.SetGCPercent(-1)
	w := &c17Worker{shard: shard, n: n}
	w.out.Hist = map[string]int64{}
	thorough := tier == "thorough"
	all := func(int) bool { return true }

	// v2: temporal group (absent or each of its 100 combinations) x environmental group (absent or each of 1920)
	{
		ver := spec.V2
		for t := -1; t < 100; t++ {
			for e := -1; e < 1920; e++ {
				if !w.mine() {
					continue
				}
				var o CVSS20T
				for i := 0; i < 6; i++ {
					m := ver.Metrics[i]
					o.Set(m.Abv, m.Values[(t+e+i+2)%len(m.Values)])
				}
				if t >= 0 {
					x := t
					for _, i := range []int{6, 7, 8} {
						m := ver.Metrics[i]
						o.Set(m.Abv, m.Values[x%len(m.Values)])
						x /= len(m.Values)
					}
				}
				if e >= 0 {
					x := e
					for _, i := range []int{9, 10, 11, 12, 13} {
						m := ver.Metrics[i]
						o.Set(m.Abv, m.Values[x%len(m.Values)])
						x /= len(m.Values)
					}
				}
				c17Objects(w, I20, o, (t+e)%16 == 0, nil)
			}
		}
		c17GetSet(w, I20)
	}
	rots := 1
	if thorough {
		rots = 4
	}
	c17Presence(w, I30, rots, all, 4, nil)
	c17GetSet(w, I30)
	c17Presence(w, I31, rots, all, 4, nil)
	c17GetSet(w, I31)
	keep4 := all
	rots4, every := 1, 8
	if thorough {
		rots4, every = 4, 2
	}
	c17Presence(w, I40, rots4, keep4, every, func(o *CVSS40T) {
		vec := "v4 object"
		w.measure("4.0", "Nomenclature", vec, 0, 0, func() { sinkS = o.Nomenclature() })
	})
	c17GetSet(w, I40)
	// the scoring methods on every effective class of every version (v2: every 8th batch in the quick tier)
	{
		every2 := 8
		if thorough {
			every2 = 1
		}
		n2, b2 := c17ClassBuilder(I20, []int{0, 1, 2, 3, 4, 5, 6, 7, 8, 9, 10, 11, 12, 13})
		c17ScoreBatches(w, I20, n2, every2, b2, nil)
		v3 := []int{0, 1, 2, 3, 4, 5, 6, 7, 8, 9, 10, 11, 12, 13}
		n30, b30 := c17ClassBuilder(I30, v3)
		c17ScoreBatches(w, I30, n30, 1, b30, nil)
		n31, b31 := c17ClassBuilder(I31, v3)
		c17ScoreBatches(w, I31, n31, 1, b31, nil)
		c17ScoreBatches(w, I40, spec.V4NumClasses, 1, func(idx int, o *CVSS40T) bool {
			rp := CanonRepr(spec.V4ClassFromIndex(idx))
			oo, err := rp.Object()
			*o = oo
			return err == nil
		}, func(o *CVSS40T) { sinkS = o.Nomenclature() })
	}
	// non-canonical accepted inputs: explicit not-defined values, shuffled v3 orders
	for _, ver := range spec.Versions {
		for rot := 0; rot < 6; rot++ {
			if !w.mine() {
				continue
			}
			a := rotAssign(ver, rot)
			for i := range a {
				if !ver.Mandatory(i) && (i+rot)%2 == 0 {
					a[i] = int8(ver.NDIndex(i))
				}
			}
			el := elemsOf(ver, a, nil)
			if ver.AnyOrd {
				p := make([]string, len(el))
				for i := range el {
					p[i] = el[(i*5+rot)%len(el)]
				}
				el = p
			}
			str := ver.Join(el)
			for _, p := range parsers {
				if p.ver == ver {
					p := p
					if _, err := p.parse(str); err == nil {
						w.measure(ver.Name, "ParseVector(non-canonical)", str, 0, 1, func() { o, e := p.parse(str); sinkP, sinkE = o, e })
					}
				}
			}
		}
	}
	// successful ParseVector right after a rejected / other call (history dependence of the budget)
	for _, p := range parsers {
		p := p
		ver := p.ver
		good := ver.Join(elemsOf(ver, definedRot(ver, 1), nil))
		goodMin := ver.Join(elemsOf(ver, definedRot(ver, 2), func(i int) bool { return ver.Mandatory(i) }))
		full := elemsOf(ver, definedRot(ver, 1), nil)
		var bads []string
		for _, pos := range []int{0, 1, len(full) / 2, len(full) - 1} {
			x := append([]string(nil), full...)
			x[pos] = strings.SplitN(x[pos], ":", 2)[0] + ":BAD"
			bads = append(bads, ver.Join(x)) // illegal value at this position
			y := append([]string(nil), full...)
			y[pos] = "ZZ:N"
			bads = append(bads, ver.Join(y)) // unknown abbreviation
			if pos+1 < len(full) {
				z := append([]string(nil), full...)
				z[pos], z[pos+1] = z[pos+1], z[pos]
				bads = append(bads, ver.Join(z)) // order (v2/v4) or still valid (v3)
			}
			bads = append(bads, ver.Join(full[:pos+1]), ver.Join(full[:pos+1])+"/")
		}
		bads = append(bads, "", good+"/", good+"/"+full[0], "CVSS:9.9/"+good, goodMin)
		for _, bad := range bads {
			if !w.mine() {
				continue
			}
			bad := bad
			for _, g := range []string{good, goodMin} {
				g := g
				w.measureAfter(ver.Name, "ParseVector(after another call)", fmt.Sprintf("%q after %q", g, bad), 0, 1,
					func() { o, e := p.parse(bad); sinkP, sinkE = o, e },
					func() { o, e := p.parse(g); sinkP, sinkE = o, e })
			}
		}
	}
	// Rating
	if w.shard == 0 {
		for k := -5; k <= 105; k++ {
			s := float64(k) / 10
			w.measure("3.0", "Rating", fmt.Sprint(s), 0, 0, func() { sinkS, sinkE = gocvss30.Rating(s) })
			w.measure("3.1", "Rating", fmt.Sprint(s), 0, 0, func() { sinkS, sinkE = gocvss31.Rating(s) })
			w.measure("4.0", "Rating", fmt.Sprint(s), 0, 0, func() { sinkS, sinkE = gocvss40.Rating(s) })
		}
	}
	enc := json.NewEncoder(os.Stdout)
	enc.Encode(w.out)
}

// CheckC17 — allocation budget.
func CheckC17(r *Report) {
	r.Rule = "E5 numspace: heap allocations of ONE call (runtime.ReadMemStats Mallocs delta, GOMAXPROCS(1), GC off, after a warm-up call, minimum of 3 repetitions, 20 re-measurements before reporting) for Vector() (=1) and successful ParseVector (<=1) on every presence subset of optional metrics with rotating values (v2: every temporal x environmental combination; v3: 2^14 x rotations; v4: 2^21 x rotations), Get / Set(legal) / Set(illegal) on every metric and value (=0), every scoring method, Nomenclature and Rating (=0); in addition every scoring method (and v4 Nomenclature) on the canonical object of EVERY effective class (v3.0/v3.1: 16,588,800 each; v4.0: 15,116,544; v2.0: 139,968,000 in the thorough tier, every 8th batch of 4096 in the quick tier), measured per batch of 4096 objects (budget 0, so a batch sum of 0 settles every call in it; a batch that allocates is re-measured call by call); 16 worker processes; distinct = measured (call, object) cases"
	exe, err := os.Executable()
	if err != nil {
		r.Note("cannot locate own executable: %v", err)
		r.NotExhaustive("workers not started")
		return
	}
	const nw = 16
	outs := make([]c17Out, nw)
	errs := make([]error, nw)
	var wg sync.WaitGroup
	for i := 0; i < nw; i++ {
		wg.Add(1)
		go func(i int) {
			defer wg.Done()
			cmd := exec.Command(exe, "c17worker", fmt.Sprint(i), fmt.Sprint(nw), r.Tier)
			cmd.Stderr = os.Stderr
			pipe, err := cmd.StdoutPipe()
			if err != nil {
				errs[i] = err
				return
			}
			if err := cmd.Start(); err != nil {
				errs[i] = err
				return
			}
			dec := json.NewDecoder(bufio.NewReaderSize(pipe, 1<<20))
			derr := dec.Decode(&outs[i])
			werr := cmd.Wait()
			if derr != nil {
				errs[i] = fmt.Errorf("worker %d: %v / %v", i, derr, werr)
			}
		}(i)
	}
	wg.Wait()
	hist := map[string]int64{}
	for i := range outs {
		if errs[i] != nil {
			r.Note("worker failure: %v", errs[i])
			r.NotExhaustive("a measuring worker failed; its shard is not covered")
			continue
		}
		r.States.Add(outs[i].Objects)
		r.Transitions.Add(outs[i].Cases)
		r.Traces.Add(outs[i].Cases)
		for k, v := range outs[i].Hist {
			hist[k] += v
		}
		for _, v := range outs[i].Violations {
			r.Violation(Case{Kind: "alloc", Key: v.Key, Expected: v.Expected, Observed: v.Observed, Args: v.Args}, nil)
		}
		if i == 0 {
			for _, s := range outs[i].Samples {
				r.Sample(map[string]any{"object": s, "measured": "Vector()=1, ParseVector<=1"})
			}
		}
	}
	r.SetExtra("allocation_histogram", hist)
	r.Evaluations.Store(r.Transitions.Load())
	r.Distinct.Store(r.Transitions.Load())
	r.Exhaustive = false
	r.Bound = "see rule; measured on " + runtime.Version() + " " + runtime.GOARCH + " (escape analysis is toolchain dependent; the property says 'on the supported toolchain')"
	r.Assumptions = []string{"Mallocs counter of the Go runtime; steady state = split pool warm, GC off"}
}

func init() {
	replayers["alloc"] = func(c *Case) string {
		// allocation cases are re-measured by re-running the measurement workers; the case reproduces when the
		// same (version, call, allocation count) is over budget again
		tmp := NewReport(c.Property, "quick", 0)
		CheckC17(tmp)
		tmp.mu.Lock()
		defer tmp.mu.Unlock()
		for _, v := range tmp.violations {
			if v.Key == c.Key {
				return v.Observed
			}
		}
		if len(tmp.violations) > 0 {
			return "a different allocation case is over budget now: " + tmp.violations[0].Key + " " + tmp.violations[0].Observed
		}
		return ""
	}
}
