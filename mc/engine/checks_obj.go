package engine

import (
	"fmt"

	"verif/mc/spec"
)

// storage-order hints (from */values.go layout comments). Only used to choose
// which metrics vary together ("windows"); a wrong hint weakens collision
// forcing, never soundness.
var storageOrder = map[string][]string{
	"2.0": {"AV", "AC", "Au", "C", "I", "A", "E", "RL", "RC", "CDP", "TD", "CR", "IR", "AR"},
	"3.0": {"AV", "AC", "PR", "UI", "S", "C", "I", "A", "E", "RL", "RC", "CR", "IR", "AR", "MAV", "MAC", "MPR", "MUI", "MS", "MC", "MI", "MA"},
	"3.1": {"AV", "AC", "PR", "UI", "S", "C", "I", "A", "E", "RL", "RC", "CR", "IR", "AR", "MAV", "MAC", "MPR", "MUI", "MS", "MC", "MI", "MA"},
	"4.0": {"AV", "AC", "AT", "PR", "UI", "VC", "SC", "VI", "SI", "VA", "SA", "E", "CR", "IR", "AR", "MAV", "MAC", "MAT", "MPR", "MUI", "MVC", "MVI", "MVA", "MSC", "MSI", "MSA", "S", "AU", "R", "V", "RE", "U"},
}

type ObjPlan struct {
	T         int  // t-wise strength
	W         int  // storage window width
	WCap      int  // max states per window sweep (window shrinks until it fits)
	Rotations int  // presence sweep value rotations
	FullV2    bool // enumerate all 139,968,000 v2 objects
	Preds     Pred
}

// RunObjSweeps runs the standard E2 sweeps for one version.
func RunObjSweeps[T comparable, P Object[T]](s *OS[T, P], plan ObjPlan) {
	ver := s.I.Ver
	r := s.R
	nm := len(ver.Metrics)
	bgs := s.Backgrounds()
	tag := "v" + ver.Name

	// zero value == canonical build of its own assignment
	var z T
	if zb, err := s.Build(s.Zero); err != nil || zb != z {
		r.Violation(Case{Kind: "obj-ops", Key: tag + "/zero-value-not-canonical", Expected: "Set of the zero value's own values leaves it ==",
			Observed: fmt.Sprintf("%v vs %v err=%v", s.I.Describe(z), s.I.Describe(zb), err),
			Args:     map[string]any{"version": ver.Name, "start": "zero", "ops": s.opsFor(s.Zero), "preds": uint(plan.Preds)}}, nil)
	}

	// (i) complete v2 space
	if ver == spec.V2 && plan.FullV2 {
		all := make([]int, nm)
		for i := range all {
			all[i] = i
		}
		before := r.States.Load()
		s.Sweep(FullDims(ver, all), s.Zero, plan.Preds, 16)
		r.SetExtra(tag+"_complete_space_states", r.States.Load()-before)
	} else if ver == spec.V2 {
		// all objects with one optional group free (single-group) and base free
		for _, grp := range [][]int{{0, 1, 2, 3, 4, 5, 6, 7, 8}, {0, 1, 2, 3, 4, 5, 9, 10, 11, 12, 13}} {
			for _, bg := range bgs[:2] {
				s.Sweep(FullDims(ver, grp), bg, plan.Preds, 16)
			}
		}
	}

	// (ii) t-wise: every subset of t metrics, full product, 3 backgrounds
	if !(ver == spec.V2 && plan.FullV2) {
		var subsets [][]int
		Combinations(nm, plan.T, func(c []int) { subsets = append(subsets, append([]int(nil), c...)) })
		before := r.States.Load()
		Parallel(len(subsets), 16, func(i int) {
			for _, bg := range bgs {
				s.Sweep(FullDims(ver, subsets[i]), bg, plan.Preds, 1)
			}
		})
		r.SetExtra(fmt.Sprintf("%s_twise_t%d_subsets", tag, plan.T), len(subsets))
		r.SetExtra(fmt.Sprintf("%s_twise_states", tag), r.States.Load()-before)
	}

	// (iii) storage-order windows: every run of w storage-adjacent metrics takes all joint values
	if !(ver == spec.V2 && plan.FullV2) {
		so := storageOrder[ver.Name]
		before := r.States.Load()
		nw := 0
		prevEnd := -1
		for st := 0; st < len(so); st++ {
			var ms []int
			size := 1
			end := st
			for k := st; k < len(so) && len(ms) < plan.W; k++ {
				mi := ver.Index(so[k])
				if mi < 0 {
					end = k + 1
					continue
				}
				if size*len(ver.Metrics[mi].Values) > plan.WCap {
					break
				}
				size *= len(ver.Metrics[mi].Values)
				ms = append(ms, mi)
				end = k + 1
			}
			if len(ms) < 2 || end <= prevEnd {
				continue // contained in the previous window
			}
			prevEnd = end
			for _, bg := range bgs {
				s.Sweep(FullDims(ver, ms), bg, plan.Preds, 16)
			}
			nw++
		}
		r.SetExtra(tag+"_windows", nw)
		r.SetExtra(tag+"_window_states", r.States.Load()-before)
	}

	// (iv) presence sweeps: every subset of defined optional metrics x value rotations
	if ver != spec.V2 {
		before := r.States.Load()
		for rot := 0; rot < plan.Rotations; rot++ {
			var dims []Dim
			for mi, m := range ver.Metrics {
				if ver.Mandatory(mi) {
					continue
				}
				nd := ver.NDIndex(mi)
				// the rot-th defined value (cyclic)
				var defined []int8
				for k := range m.Values {
					if k != nd {
						defined = append(defined, int8(k))
					}
				}
				dims = append(dims, Dim{M: mi, Vals: []int8{int8(nd), defined[rot%len(defined)]}})
			}
			bg := bgs[rot%len(bgs)].Clone()
			// presence sweeps do not run closure over all values (only the 2 listed), keep preds
			s.Sweep(dims, bg, plan.Preds, 16)
		}
		r.SetExtra(tag+"_presence_states", r.States.Load()-before)
	}
}

// HistoryBFS explores all Set/Parse(Vector())/copy histories up to depth d from
// the zero value and from parsed non-initial objects; alphabet: every legal
// (metric,value) of a rotating subset + illegal ones. Oracle: RunOps (slow oracle).
func HistoryBFS[T comparable, P Object[T]](s *OS[T, P], depth int, preds Pred) {
	ver := s.I.Ver
	// alphabet: for each metric its first and last value + one illegal + one unknown abbreviation
	var alpha [][]string
	for mi, m := range ver.Metrics {
		alpha = append(alpha, []string{"Set", m.Abv, m.Values[0]}, []string{"Set", m.Abv, m.Values[len(m.Values)-1]})
		if mi%4 == 0 {
			alpha = append(alpha, []string{"Set", m.Abv, s.BadVals[mi][mi%len(s.BadVals[mi])]})
		}
	}
	alpha = append(alpha, []string{"Set", s.BadAbvs[0], "N"}, []string{"Set", s.BadAbvs[len(s.BadAbvs)/2], "H"})
	starts := []string{"zero"}
	for _, bg := range s.Backgrounds()[1:] {
		starts = append(starts, ver.Canon(bg))
	}
	type node struct {
		ops [][]string
	}
	for _, st := range starts {
		seen := map[T]bool{}
		frontier := []node{{}}
		for d := 0; d <= depth; d++ {
			var next []node
			for _, nd := range frontier {
				if k, e, o := s.RunOps(st, nd.ops, preds); k != "" {
					ops := nd.ops
					c := Case{Kind: "obj-ops", Key: "v" + ver.Name + "/" + k, Expected: e, Observed: o,
						Args: map[string]any{"version": ver.Name, "start": st, "ops": ops, "preds": uint(preds)}}
					s.R.Violation(c, func() bool { k2, _, _ := s.RunOps(st, ops, preds); return k2 != "" })
					continue
				}
				s.R.Traces.Add(1)
				s.R.Transitions.Add(int64(len(nd.ops)))
				// state for dedup = resulting object
				var o T
				if st != "zero" {
					po, _ := s.I.Parse(st)
					if po != nil {
						o = *po
					}
				}
				for _, op := range nd.ops {
					P(&o).Set(op[1], op[2])
				}
				if seen[o] && d > 0 {
					continue
				}
				seen[o] = true
				s.R.States.Add(1)
				if d == depth {
					continue
				}
				for _, a := range alpha {
					ops := append(append([][]string(nil), nd.ops...), a)
					next = append(next, node{ops})
				}
			}
			frontier = next
		}
	}
}
