package engine

import (
	"errors"
	"fmt"
	"hash/fnv"
	"strings"
	"sync"
	"sync/atomic"

	gocvss20 "github.com/pandatix/go-cvss/20"
	gocvss30 "github.com/pandatix/go-cvss/30"
	gocvss31 "github.com/pandatix/go-cvss/31"
	gocvss40 "github.com/pandatix/go-cvss/40"

	"verif/mc/spec"
)

// E1 "strspace": the four parsers as state machines over strings.

type vecObj interface {
	Get(string) (string, error)
	Set(string, string) error
	Vector() string
}

type parserImpl struct {
	ver   *spec.Version
	parse func(string) (vecObj, error)
	// error identities
	errHeader, errValue, errOrder, errShort error
	typed                                   func(err error) (kind spec.ErrClass, abv string)
}

var parsers = []*parserImpl{
	{ver: spec.V2, parse: func(s string) (vecObj, error) {
		o, err := gocvss20.ParseVector(s)
		if o == nil {
			return nil, err
		}
		return o, err
	}, errValue: gocvss20.ErrInvalidMetricValue, errOrder: gocvss20.ErrInvalidMetricOrder, errShort: gocvss20.ErrTooShortVector,
		typed: func(err error) (spec.ErrClass, string) {
			var e *gocvss20.ErrInvalidMetric
			if errors.As(err, &e) && e != nil {
				return spec.ClassBadAbv, e.Abv
			}
			return spec.ClassNone, ""
		}},
	{ver: spec.V30, parse: func(s string) (vecObj, error) {
		o, err := gocvss30.ParseVector(s)
		if o == nil {
			return nil, err
		}
		return o, err
	}, errHeader: gocvss30.ErrInvalidCVSSHeader, errValue: gocvss30.ErrInvalidMetricValue, errShort: gocvss30.ErrTooShortVector,
		typed: func(err error) (spec.ErrClass, string) {
			var e1 *gocvss30.ErrMissing
			if errors.As(err, &e1) && e1 != nil {
				return spec.ClassMissing, e1.Abv
			}
			var e2 *gocvss30.ErrDefinedN
			if errors.As(err, &e2) && e2 != nil {
				return spec.ClassDefinedN, e2.Abv
			}
			var e3 *gocvss30.ErrInvalidMetric
			if errors.As(err, &e3) && e3 != nil {
				return spec.ClassBadAbv, e3.Abv
			}
			return spec.ClassNone, ""
		}},
	{ver: spec.V31, parse: func(s string) (vecObj, error) {
		o, err := gocvss31.ParseVector(s)
		if o == nil {
			return nil, err
		}
		return o, err
	}, errHeader: gocvss31.ErrInvalidCVSSHeader, errValue: gocvss31.ErrInvalidMetricValue, errShort: gocvss31.ErrTooShortVector,
		typed: func(err error) (spec.ErrClass, string) {
			var e1 *gocvss31.ErrMissing
			if errors.As(err, &e1) && e1 != nil {
				return spec.ClassMissing, e1.Abv
			}
			var e2 *gocvss31.ErrDefinedN
			if errors.As(err, &e2) && e2 != nil {
				return spec.ClassDefinedN, e2.Abv
			}
			var e3 *gocvss31.ErrInvalidMetric
			if errors.As(err, &e3) && e3 != nil {
				return spec.ClassBadAbv, e3.Abv
			}
			return spec.ClassNone, ""
		}},
	{ver: spec.V4, parse: func(s string) (vecObj, error) {
		o, err := gocvss40.ParseVector(s)
		if o == nil {
			return nil, err
		}
		return o, err
	}, errHeader: gocvss40.ErrInvalidCVSSHeader, errValue: gocvss40.ErrInvalidMetricValue, errOrder: gocvss40.ErrInvalidMetricOrder, errShort: gocvss40.ErrTooShortVector,
		typed: func(err error) (spec.ErrClass, string) {
			var e *gocvss40.ErrInvalidMetric
			if errors.As(err, &e) && e != nil {
				return spec.ClassBadAbv, e.Abv
			}
			return spec.ClassNone, ""
		}},
}

// errClassOf maps an implementation error to a documented class.
func (p *parserImpl) errClassOf(err error) (spec.ErrClass, string) {
	switch {
	case err == nil:
		return spec.ClassNone, ""
	case p.errHeader != nil && errors.Is(err, p.errHeader):
		return spec.ClassHeader, ""
	case p.errValue != nil && errors.Is(err, p.errValue):
		return spec.ClassValue, ""
	case p.errOrder != nil && errors.Is(err, p.errOrder):
		return spec.ClassOrder, ""
	case p.errShort != nil && errors.Is(err, p.errShort):
		return spec.ClassShort, ""
	}
	return p.typed(err)
}

// SPred selects the predicates evaluated on every string.
type SPred uint

const (
	SAccept  SPred = 1 << iota // C01: verdict equals the reference recogniser; nil/non-nil conventions; no panic
	SMeaning                   // C06: Get(m) equals the reference parser's value
	SCanon                     // C08: Vector() equals the reference canonical form; idempotent
	SOneVer                    // C13: accepted by at most one version
	SErrors                    // C18: documented error value for classified single-defect strings
)

// SS is one strspace run.
type SS struct {
	R     *Report
	Preds SPred
	dedup [256]struct {
		mu sync.Mutex
		m  map[uint64]struct{}
	}
	NStrings  atomic.Int64 // strings evaluated (after dedup)
	NDup      atomic.Int64
	NAccepted atomic.Int64 // (string, version) acceptances
	NClassed  atomic.Int64 // classified single-defect (string, version) pairs
	ClassHist [8]atomic.Int64
	ModelDis  atomic.Int64 // disagreements between the two formulations of the reference grammar
	CrossChk  bool         // evaluate the second formulation too
}

func NewSS(r *Report, preds SPred) *SS {
	s := &SS{R: r, Preds: preds, CrossChk: true}
	for i := range s.dedup {
		s.dedup[i].m = map[uint64]struct{}{}
	}
	return s
}

// Fresh reports whether str was not seen before (and records it).
func (s *SS) Fresh(str string) bool {
	h := fnv.New64a()
	h.Write([]byte(str))
	k := h.Sum64()
	sh := &s.dedup[k&255]
	sh.mu.Lock()
	_, dup := sh.m[k]
	if !dup {
		sh.m[k] = struct{}{}
	}
	sh.mu.Unlock()
	if dup {
		s.NDup.Add(1)
	}
	return !dup
}

// EvalD evaluates str unless it was evaluated before.
func (s *SS) EvalD(str string) {
	if s.Fresh(str) {
		s.Eval(str)
	}
}

type evalIssue struct{ key, expected, observed string }

// evalOne compares all four parsers with the reference on one string. It is the
// oracle used by exploration, confirmation and replay.
func evalOne(str string, preds SPred, stats *SS) []evalIssue {
	var issues []evalIssue
	nAcc := 0
	var accBy []string
	for _, p := range parsers {
		ver := p.ver
		tag := "v" + ver.Name + "/ParseVector/"
		var obj vecObj
		var err error
		// primer: a valid full vector of the version is parsed first, so that every scratch buffer / memo the
		// parser may keep between calls holds the most "helpful" stale content when str is parsed
		Safely(func() { p.parse(primerOf(p)) })
		if pv := Safely(func() { obj, err = p.parse(str) }); pv != nil {
			if preds&SAccept != 0 {
				issues = append(issues, evalIssue{tag + "panic", "no panic", fmt.Sprint(pv)})
			}
			continue
		}
		if (obj == nil) != (err != nil) {
			if preds&SAccept != 0 {
				issues = append(issues, evalIssue{tag + "nil-convention", "non-nil object iff nil error", fmt.Sprintf("object nil=%v, err=%v", obj == nil, err)})
			}
		}
		acc := err == nil && obj != nil
		want, ok := ver.Parse(str)
		if stats != nil && stats.CrossChk {
			if ver.Accepts2(str) != ok {
				stats.ModelDis.Add(1)
				stats.R.Note("MODEL SELF-INCONSISTENCY on %q for v%s: split/map formulation=%v, second formulation=%v", str, ver.Name, ok, !ok)
				continue // the oracle is not trusted on this string
			}
		}
		if acc {
			nAcc++
			accBy = append(accBy, ver.Name)
		}
		if acc != ok {
			if preds&SErrors != 0 && acc {
				// C18 names the error value a single-defect vector yields: accepting it (nil error) is not that value
				if d := ver.Classify(str); d.Class != spec.ClassNone {
					if stats != nil {
						stats.NClassed.Add(1)
						stats.ClassHist[d.Class].Add(1)
					}
					exp := d.Class.String()
					if d.Abv != "" {
						exp += "{Abv:" + d.Abv + "}"
					}
					issues = append(issues, evalIssue{fmt.Sprintf("v%s/ParseVector/error/want-%s/got-nil-error@%s", ver.Name, d.Class, d.Where), exp, "nil error (accepted), Vector()=" + safeVector(obj)})
				}
			}
			if preds&SAccept != 0 {
				d := ver.Classify(str)
				if ok {
					issues = append(issues, evalIssue{tag + "rejects-valid", "accepted (well-formed v" + ver.Name + " vector)", fmt.Sprintf("error %v", err)})
				} else {
					issues = append(issues, evalIssue{tag + "accepts-invalid/" + d.Class.String() + "@" + d.Where, "rejected (not a v" + ver.Name + " vector)", "accepted, Vector()=" + safeVector(obj)})
				}
			}
			continue
		}
		if acc {
			if stats != nil {
				stats.NAccepted.Add(1)
			}
			if preds&SMeaning != 0 {
				for mi, m := range ver.Metrics {
					got, gerr := obj.Get(m.Abv)
					if gerr != nil || got != m.Values[want[mi]] {
						issues = append(issues, evalIssue{"v" + ver.Name + "/parsed-meaning/" + m.Abv, fmt.Sprintf("Get(%q)=%q", m.Abv, m.Values[want[mi]]), fmt.Sprintf("%q, %v", got, gerr)})
						break
					}
				}
				// what a parsed vector means must not depend on what was done to an earlier result of the same
				// (or an equal) string: edit the first result, parse again, read again
				m0 := ver.Metrics[0]
				mL := ver.Metrics[len(ver.Metrics)-1]
				obj.Set(m0.Abv, m0.Values[(int(want[0])+1)%len(m0.Values)])
				obj.Set(mL.Abv, mL.Values[(int(want[len(want)-1])+1)%len(mL.Values)])
				if o2, e2 := p.parse(str); e2 != nil || o2 == nil {
					issues = append(issues, evalIssue{"v" + ver.Name + "/parsed-meaning/second-parse-rejected", "accepted again", fmt.Sprint(e2)})
				} else {
					for _, mi := range []int{0, len(ver.Metrics) - 1} {
						m := ver.Metrics[mi]
						if got, _ := o2.Get(m.Abv); got != m.Values[want[mi]] {
							issues = append(issues, evalIssue{"v" + ver.Name + "/parsed-meaning/aliases-earlier-result", fmt.Sprintf("Get(%q)=%q on a fresh parse", m.Abv, m.Values[want[mi]]), fmt.Sprintf("%q after Set on the result of an earlier parse of the same string", got)})
							break
						}
					}
				}
			}
			if preds&SCanon != 0 {
				canon := ver.Canon(want)
				got := safeVector(obj)
				// the returned string must not change when other objects are serialised afterwards
				var raw string
				if pv := Safely(func() { raw = obj.Vector() }); pv == nil {
					keep := strings.Clone(raw)
					for _, oth := range otherObjs(p) {
						Safely(func() { _ = oth.Vector() })
					}
					if raw != keep {
						issues = append(issues, evalIssue{"v" + ver.Name + "/Vector/returned-string-changed-later", keep, strings.Clone(raw)})
					}
				}
				// serialisation must not depend on what was serialised just before: prime with every one-metric
				// neighbour of the object (memo / cache keyed by a lossy digest of the object)
				if got == canon {
					nb := want.Clone()
					for mi, m := range ver.Metrics {
						alts := 1
						if mi == len(ver.Metrics)-1 {
							alts = len(m.Values) - 1
						}
						for k := 1; k <= alts; k++ {
							nb[mi] = int8((int(want[mi]) + k) % len(m.Values))
							if no, nerr := p.parse(ver.Canon(nb)); nerr == nil && no != nil {
								Safely(func() { _ = no.Vector() })
								if g2 := safeVector(obj); g2 != canon {
									got = g2
									issues = append(issues, evalIssue{"v" + ver.Name + "/canonical-form/depends-on-previous-Vector-call", canon, g2 + " right after serialising " + ver.Canon(nb)})
									break
								}
							}
						}
						nb[mi] = want[mi]
						if got != canon {
							break
						}
					}
				} else {
					issues = append(issues, evalIssue{"v" + ver.Name + "/canonical-form", canon, got})
				}
				if got != canon {
					// already reported
				} else if canon != str {
					// idempotence: parse-then-serialise applied to the canonical string gives itself
					o2, e2 := p.parse(canon)
					if e2 != nil || o2 == nil {
						issues = append(issues, evalIssue{"v" + ver.Name + "/canonical-form/rejected", "canonical form accepted", fmt.Sprintf("%q: %v", canon, e2)})
					} else if v2 := safeVector(o2); v2 != canon {
						issues = append(issues, evalIssue{"v" + ver.Name + "/canonical-form/not-idempotent", canon, v2})
					}
				}
			}
			continue
		}
		// rejected by both
		if preds&SErrors != 0 {
			d := ver.Classify(str)
			if stats != nil && d.Class != spec.ClassNone {
				stats.NClassed.Add(1)
				stats.ClassHist[d.Class].Add(1)
			}
			if d.Class != spec.ClassNone {
				gc, gabv := p.errClassOf(err)
				if gc != d.Class || (d.Abv != "" && gabv != d.Abv) {
					gots := gc.String()
					if gc == spec.ClassNone {
						gots = fmt.Sprintf("%T", err)
					}
					exp := d.Class.String()
					if d.Abv != "" {
						exp += "{Abv:" + d.Abv + "}"
					}
					key := fmt.Sprintf("v%s/ParseVector/error/want-%s/got-%s@%s", ver.Name, d.Class, gots, d.Where)
					if gc == d.Class && gabv != d.Abv {
						key = fmt.Sprintf("v%s/ParseVector/error/%s-names-wrong-metric@%s", ver.Name, d.Class, d.Where)
					}
					issues = append(issues, evalIssue{key, exp, fmt.Sprintf("%T %v (Abv=%q)", err, err, gabv)})
				}
			}
		}
	}
	if nAcc > 1 && preds&SOneVer != 0 {
		issues = append(issues, evalIssue{"multi-version-accept/" + strings.Join(accBy, "+"), "accepted by at most one version", "accepted by " + strings.Join(accBy, ", ")})
	}
	return issues
}

func safeVector(o vecObj) (v string) {
	if o == nil {
		return "<nil>"
	}
	if p := Safely(func() { v = strings.Clone(o.Vector()) }); p != nil {
		return fmt.Sprintf("<Vector panicked: %v>", p)
	}
	return
}

// Eval evaluates one string and records violations.
func (s *SS) Eval(str string) {
	s.NStrings.Add(1)
	issues := evalOne(str, s.Preds, s)
	for _, is := range issues {
		key := is.key
		s.R.Violation(Case{Kind: "parse", Key: key, Expected: is.expected, Observed: is.observed + " on input " + fmt.Sprintf("%q", str),
			Args:   map[string]any{"input": str, "input_hex": fmt.Sprintf("%x", str), "preds": uint(s.Preds)},
			GoTest: fmt.Sprintf("for each of gocvss20/30/31/40: o, err := ParseVector(%q) // compare acceptance, Get, Vector(), errors.Is/As with the expectation", str)},
			func() bool {
				for _, i2 := range evalOne(str, s.Preds, nil) {
					if i2.key == key {
						return true
					}
				}
				return false
			})
	}
	if len(str) > 20 && s.NStrings.Load()%99991 == 7 && s.R.WantSample() {
		s.R.Sample(str)
	}
}

func init() {
	replayers["parse"] = func(c *Case) string {
		str := argStr(c, "input")
		if hx := argStr(c, "input_hex"); hx != "" {
			var b []byte
			fmt.Sscanf(hx, "%x", &b)
			if len(b) > 0 || str == "" {
				str = string(b)
			}
		}
		preds := SPred(0)
		if f, ok := c.Args["preds"].(float64); ok {
			preds = SPred(uint(f))
		}
		var out []string
		for _, is := range evalOne(str, preds, nil) {
			out = append(out, fmt.Sprintf("%s: expected %s; observed %s", is.key, is.expected, is.observed))
		}
		return strings.Join(out, " | ")
	}
}

var (
	otherMu  sync.Mutex
	otherMap = map[*parserImpl][]vecObj{}
)

// otherObjs: two fixed objects per version (a minimal and a maximal vector) serialised after the object under
// test to reveal a Vector() buffer that is recycled.
func otherObjs(p *parserImpl) []vecObj {
	otherMu.Lock()
	defer otherMu.Unlock()
	if o, ok := otherMap[p]; ok {
		return o
	}
	var out []vecObj
	ver := p.ver
	a := definedRot(ver, 3)
	for _, present := range []func(int) bool{func(i int) bool { return ver.Mandatory(i) }, nil} {
		if o, err := p.parse(ver.Join(elemsOf(ver, a, present))); err == nil && o != nil {
			out = append(out, o)
		}
	}
	otherMap[p] = out
	return out
}

var (
	primerMu  sync.Mutex
	primerMap = map[*parserImpl]string{}
)

func primerOf(p *parserImpl) string {
	primerMu.Lock()
	defer primerMu.Unlock()
	if s, ok := primerMap[p]; ok {
		return s
	}
	s := p.ver.Join(elemsOf(p.ver, definedRot(p.ver, 0), nil))
	primerMap[p] = s
	return s
}
