package engine

import (
	"fmt"
	"math"

	gocvss20 "github.com/pandatix/go-cvss/20"
	gocvss30 "github.com/pandatix/go-cvss/30"
	gocvss31 "github.com/pandatix/go-cvss/31"
	gocvss40 "github.com/pandatix/go-cvss/40"

	"verif/mc/spec"
)

// ---------- C11: every score is a finite one-decimal number within the scale ----------

// wellFormedScore checks C11's predicate on one value. lo/hi are the bounds in tenths.
func wellFormedScore(s float64, lo, hi int) string {
	if math.IsNaN(s) || math.IsInf(s, 0) {
		return fmt.Sprintf("%v is not finite", s)
	}
	k, ok := score10(s)
	if !ok {
		return fmt.Sprintf("%.17g is not the float64 nearest to k/10", s)
	}
	if k < lo || k > hi {
		return fmt.Sprintf("%.1f is outside [%.1f, %.1f]", s, float64(lo)/10, float64(hi)/10)
	}
	return ""
}

// c11One evaluates C11's predicate for scoring method i of object o; returns (key suffix, observation).
func c11One[T comparable, P Object[T]](im *Impl[T, P], i int, o *T, rating func(float64) (string, error)) (key, obs string) {
	sf := im.Scores[i]
	var s float64
	if p := Safely(func() { s = sf.F(o) }); p != nil {
		return "panic", fmt.Sprint(p)
	}
	lo := 0
	if im.Ver == spec.V2 && sf.Name == "EnvironmentalScore" {
		lo = -1000 // exception stated by the property (pinned by C05)
	}
	if why := wellFormedScore(s, lo, 100); why != "" {
		return "malformed", why
	}
	if rating != nil {
		if rs, err := rating(s); err != nil || rs == "" {
			return "rating-refuses", fmt.Sprintf("Rating(%v) = %q, %v", s, rs, err)
		}
	}
	return "", ""
}

// iterCtx tells c11Scores how the object was reached (nil when it was not built by an Iterate path).
type iterCtx struct {
	dims []Dim
	bg   spec.Assignment
	idx  int
}

func c11Scores[T comparable, P Object[T]](r *Report, im *Impl[T, P], a spec.Assignment, o *T, rating func(float64) (string, error), idx0 int, vals *Counter, ctx *iterCtx) {
	ver := im.Ver
	for i, sf := range im.Scores {
		if sf.Name == "Impact" || sf.Name == "Exploitability" {
			continue // unrounded sub-scores by contract
		}
		key, obs := c11One(im, i, o, rating)
		vals.Add(idx0, 1)
		if key == "" {
			continue
		}
		i := i
		full := "v" + ver.Name + "/" + sf.Name + "/" + key
		if ctx != nil {
			iterViolation(r, im, ctx.dims, ctx.bg, 16, ctx.idx, a, "score-format", full, "finite one-decimal score in range accepted by Rating", obs+" on "+P(o).Vector(),
				map[string]any{"method": sf.Name}, func(a spec.Assignment, o *T) string { k, _ := c11One(im, i, o, rating); return k })
			continue
		}
		oc := *o
		r.Violation(Case{Kind: "score-format", Key: full, Expected: "finite one-decimal score in range accepted by Rating", Observed: obs + " on " + P(o).Vector(),
			Args: map[string]any{"version": ver.Name, "vector": ver.Full(a), "method": sf.Name}},
			func() bool { oo := oc; k, _ := c11One(im, i, &oo, rating); return k != "" })
	}
}

// CheckC11 — every score is a finite one-decimal number in range.
func CheckC11(r *Report) {
	ColdStart(r)
	thorough := r.Tier == "thorough"
	r.Rule = "E3 scorespace: every scoring method (v2: 3, v3: 3, v4: 1) on every v2 assignment, every v3 effective class (canonical and all-overridden representations) and every v4 effective class (canonical, all-overridden, supplemental defined): no panic, finite, == float64(k)/10 with 0<=k<=100 (v2 environmental: k<=100 only, per the property's exception), Rating accepts it (3.0/3.1/4.0); distinct = distinct objects scored"
	var vals Counter
	var states Counter
	d20 := allDims(spec.V2)
	Iterate(I20, d20, v2zero(), 16, func(idx int, a spec.Assignment, o *gocvss20.CVSS20) {
		states.Add(idx, 1)
		c11Scores(r, I20, a, o, nil, idx, &vals, &iterCtx{d20, v2zero(), idx})
	}, iterBad(r, I20, d20, v2zero(), "score-format"), r.TooMany, true)
	d30 := v3ClassDims(spec.V30)
	Iterate(I30, d30, v3bg(spec.V30), 16, func(idx int, a spec.Assignment, o *gocvss30.CVSS30) {
		states.Add(idx, 1)
		c11Scores(r, I30, a, o, gocvss30.Rating, idx, &vals, &iterCtx{d30, v3bg(spec.V30), idx})
	}, iterBad(r, I30, d30, v3bg(spec.V30), "score-format"), r.TooMany, true)
	d31 := v3ClassDims(spec.V31)
	Iterate(I31, d31, v3bg(spec.V31), 16, func(idx int, a spec.Assignment, o *gocvss31.CVSS31) {
		states.Add(idx, 1)
		c11Scores(r, I31, a, o, gocvss31.Rating, idx, &vals, &iterCtx{d31, v3bg(spec.V31), idx})
	}, iterBad(r, I31, d31, v3bg(spec.V31), "score-format"), r.TooMany, true)
	rots := []int{1}
	if thorough {
		rots = []int{0, 1, 2}
	}
	for _, rot := range rots {
		sweepV3AllOverridden(r, I30, rot, func(a spec.Assignment, o *gocvss30.CVSS30) (string, string, string) {
			idx := int(a[14])<<13 + int(a[15])<<14 + int(a[16])<<15 + int(a[19])<<17
			states.Add(idx, 1)
			c11Scores(r, I30, a, o, gocvss30.Rating, idx, &vals, nil)
			return "", "", ""
		})
		sweepV3AllOverridden(r, I31, rot, func(a spec.Assignment, o *gocvss31.CVSS31) (string, string, string) {
			idx := int(a[14])<<13 + int(a[15])<<14 + int(a[16])<<15 + int(a[19])<<17
			states.Add(idx, 1)
			c11Scores(r, I31, a, o, gocvss31.Rating, idx, &vals, nil)
			return "", "", ""
		})
	}
	// v4: canonical + overridden representations of every class
	n := spec.V4NumClasses
	chunk := 1 << 12
	nch := (n + chunk - 1) / chunk
	supp := [6]string{"P", "Y", "I", "C", "H", "Amber"}
	for pass := 0; pass < 2; pass++ {
		pass := pass
		Parallel(nch, 16, func(ci int) {
			if r.TooMany() {
				return
			}
			if pass == 1 {
				ci = nch - 1 - ci // second pass: descending order (a cache filled in the other order answers differently)
			}
			lo, hi := ci*chunk, (ci+1)*chunk
			if hi > n {
				hi = n
			}
			for k := lo; k < hi; k++ {
				idx := k
				if pass == 1 {
					idx = hi - 1 - (k - lo)
				}
				c := spec.V4ClassFromIndex(idx)
				for variant := 0; variant < 2; variant++ {
					if variant == 1 && (pass == 1 || (!thorough && idx%4 != 0)) {
						continue
					}
					rp := CanonRepr(c)
					if variant == 1 {
						for m := 0; m < 11; m++ {
							base := spec.V4.Metrics[spec.V4.Index(v4Base[m])].Values
							rp.Base[m] = base[(idx+m)%len(base)]
							rp.Mod[m] = spec.V4SevNames[m][c[m]]
						}
						rp.Supp = supp
					}
					o, err := rp.Object()
					if err != nil {
						continue
					}
					states.Add(idx, 1)
					vals.Add(idx, 1)
					s, p := v4ImplScore(&o)
					key, obs := "", ""
					if p != nil {
						key, obs = "panic", fmt.Sprint(p)
					} else if why := wellFormedScore(s, 0, 100); why != "" {
						key, obs = "malformed", why
					} else if rs, err := gocvss40.Rating(s); err != nil || rs == "" {
						key, obs = "rating-refuses", fmt.Sprintf("Rating(%v) = %q, %v", s, rs, err)
					}
					if key != "" {
						r.Violation(Case{Kind: "score-format", Key: "v4.0/Score/" + key, Expected: "finite one-decimal score in [0,10] accepted by Rating", Observed: obs + " on " + o.Vector(),
							Args: map[string]any{"version": "4.0", "vector": o.Vector(), "method": "Score"}}, nil)
					}
				}
			}
		})
	}
	r.States.Store(states.Load())
	r.Transitions.Store(vals.Load())
	// fresh-process tables in ascending and in descending order (what a cache filled in another order returns)
	coldFormatCheck(r)
	r.Traces.Store(states.Load())
	r.Evaluations.Store(r.Transitions.Load())
	r.Distinct.Store(states.Load())
	r.Bound = "v2 complete (139,968,000); v3.0/v3.1 all 16,588,800 classes canonical + all-overridden representations; v4 all 15,116,544 classes canonical + overridden/supplemental representation (every 4th class in quick); other representations are tied to these by C10"
	r.Exhaustive = false
	r.Sample(map[string]any{"vector": "CVSS:3.1/AV:N/AC:L/PR:N/UI:N/S:C/C:H/I:H/A:H", "BaseScore": 10.0})
	r.Assumptions = []string{"representation independence (C10) carries the result from the swept representations to all 5.7e11 / 2.7e17 objects"}
}

func init() {
	replayers["score-format"] = func(c *Case) string {
		vec, method := argStr(c, "vector"), argStr(c, "method")
		chk := func(s float64, p any, lo int, rating func(float64) (string, error)) string {
			if p != nil {
				return fmt.Sprintf("%s panics: %v", method, p)
			}
			if why := wellFormedScore(s, lo, 100); why != "" {
				return method + ": " + why
			}
			if rating != nil {
				if rs, err := rating(s); err != nil || rs == "" {
					return fmt.Sprintf("Rating(%v) = %q, %v", s, rs, err)
				}
			}
			return ""
		}
		find := func(n int, name func(int) string) int {
			for i := 0; i < n; i++ {
				if name(i) == method {
					return i
				}
			}
			return 0
		}
		switch argStr(c, "version") {
		case "2.0":
			_, ob, err := objForReplay(I20, c)
			o := &ob
			if err != nil {
				return "replay vector rejected"
			}
			i := find(len(I20.Scores), func(i int) string { return I20.Scores[i].Name })
			var s float64
			p := Safely(func() { s = I20.Scores[i].F(o) })
			lo := 0
			if method == "EnvironmentalScore" {
				lo = -1000
			}
			return chk(s, p, lo, nil)
		case "3.0":
			_, ob, err := objForReplay(I30, c)
			o := &ob
			if err != nil {
				return "replay vector rejected"
			}
			i := find(len(I30.Scores), func(i int) string { return I30.Scores[i].Name })
			var s float64
			p := Safely(func() { s = I30.Scores[i].F(o) })
			return chk(s, p, 0, gocvss30.Rating)
		case "3.1":
			_, ob, err := objForReplay(I31, c)
			o := &ob
			if err != nil {
				return "replay vector rejected"
			}
			i := find(len(I31.Scores), func(i int) string { return I31.Scores[i].Name })
			var s float64
			p := Safely(func() { s = I31.Scores[i].F(o) })
			return chk(s, p, 0, gocvss31.Rating)
		default:
			o, err := gocvss40.ParseVector(vec)
			if err != nil {
				return "replay vector rejected"
			}
			s, p := v4ImplScore(o)
			return chk(s, p, 0, gocvss40.Rating)
		}
	}
}

// ---------- C12: more severe never lowers the score ----------

// severity rank (higher = more severe) of value index v of metric m; equal ranks are not compared.
type rankFn func(m int, v int8) int

func v3rank(m int, v int8) int {
	switch m {
	case 0: // AV N A L P
		return 3 - int(v)
	case 1, 3: // AC L H ; UI N R
		return 1 - int(v)
	case 2: // PR N L H
		return 2 - int(v)
	case 4: // S U C
		return int(v)
	case 5, 6, 7: // H L N
		return 2 - int(v)
	case 8: // E X H F P U : X ranks with H
		return [...]int{3, 3, 2, 1, 0}[v]
	case 9: // RL X U W T O : X ranks with U
		return [...]int{3, 3, 2, 1, 0}[v]
	case 10: // RC X C R U : X ranks with C
		return [...]int{2, 2, 1, 0}[v]
	default: // CR IR AR X H M L : X ranks with M
		return [...]int{1, 2, 1, 0}[v]
	}
}

func v2rank(m int, v int8) int {
	switch m {
	case 0: // AV L A N
		return int(v)
	case 1: // AC H M L
		return int(v)
	case 2: // Au M S N
		return int(v)
	case 3, 4, 5: // N P C
		return int(v)
	case 6: // E U POC F H ND : ND ranks with H
		return [...]int{0, 1, 2, 3, 3}[v]
	case 7: // RL OF TF W U ND : ND ranks with U
		return [...]int{0, 1, 2, 3, 3}[v]
	default: // RC UC UR C ND : ND ranks with C
		return [...]int{0, 1, 2, 2}[v]
	}
}

// monoSweep builds the implementation's own score tables over the full product of ms and
// checks every pair of states differing in one metric by a more severe value.
func monoSweep[T comparable, P Object[T]](r *Report, im *Impl[T, P], ms []int, bg spec.Assignment, scoreIdx []int, rank rankFn) {
	ver := im.Ver
	dims := FullDims(ver, ms)
	n := 1
	stride := make([]int, len(dims))
	for j, d := range dims {
		stride[j] = n
		n *= len(d.Vals)
	}
	tables := make([][]int16, len(scoreIdx))
	for k := range tables {
		tables[k] = make([]int16, n)
	}
	Iterate(im, dims, bg, 16, func(idx int, a spec.Assignment, o *T) {
		for k, si := range scoreIdx {
			var s float64
			if p := Safely(func() { s = im.Scores[si].F(o) }); p != nil {
				tables[k][idx] = v4Bad
				continue
			}
			t, ok := score10(s)
			if !ok {
				// not one-decimal (C11's business): compare on the rounded value
				t = int(math.Round(s * 10))
			}
			tables[k][idx] = int16(t)
		}
	}, func(idx int, a spec.Assignment, why string) {}, r.TooMany)
	chunk := 1 << 14
	nch := (n + chunk - 1) / chunk
	Parallel(nch, 16, func(ci int) {
		lo, hi := ci*chunk, (ci+1)*chunk
		if hi > n {
			hi = n
		}
		var pairs, strict int64
		dg := make([]int, len(dims))
		for idx := lo; idx < hi; idx++ {
			x := idx
			for j, d := range dims {
				dg[j] = x % len(d.Vals)
				x /= len(d.Vals)
			}
			for j, d := range dims {
				rv := rank(d.M, d.Vals[dg[j]])
				for v2 := range d.Vals {
					if rank(d.M, d.Vals[v2]) <= rv {
						continue
					}
					idx2 := idx + (v2-dg[j])*stride[j]
					for k := range tables {
						lowS, highS := tables[k][idx], tables[k][idx2]
						pairs++
						if highS > lowS {
							strict++
						}
						if lowS == v4Bad || highS == v4Bad {
							continue
						}
						if highS < lowS {
							a := bg.Clone()
							for jj, dd := range dims {
								a[dd.M] = dd.Vals[dg[jj]]
							}
							m := ver.Metrics[d.M]
							name := im.Scores[scoreIdx[k]].Name
							r.Violation(Case{Kind: "mono", Key: "v" + ver.Name + "/" + name + "/decreases-on-" + m.Abv,
								Expected: fmt.Sprintf("%s with %s:%s >= %.1f (its value with %s:%s)", name, m.Abv, m.Values[d.Vals[v2]], float64(lowS)/10, m.Abv, m.Values[d.Vals[dg[j]]]),
								Observed: fmt.Sprintf("%.1f on %s changing %s to %s", float64(highS)/10, ver.Canon(a), m.Abv, m.Values[d.Vals[v2]]),
								Args:     map[string]any{"version": ver.Name, "vector": ver.Full(a), "metric": m.Abv, "value": m.Values[d.Vals[v2]], "method": name}}, nil)
						}
					}
				}
			}
		}
		r.Transitions.Add(pairs)
		r.Distinct.Add(strict)
	})
	r.States.Add(int64(n))
	r.Traces.Add(int64(n))
}

// CheckC12 — making a metric more severe never lowers the score.
func CheckC12(r *Report) {
	if err := spec.V4Init(); err != nil {
		r.Note("MODEL ERROR: %v", err)
		r.NotExhaustive("model start-up checks failed; nothing decided")
		return
	}
	r.Rule = "E3 scorespace: the implementation's own score tables over the effective classes (v4: 15,116,544; v3.1: 16,588,800 x 3 scores; v3.0 and v2: base x temporal classes, 2 scores) and the full one-metric neighbourhood relation: for every state and every strictly more severe value of every metric, score(more severe) >= score; oracle independent of the C03-C05 models; transitions = ordered pairs compared; distinct_nontrivial = pairs whose score strictly increases"
	// cold start: the zero-value object itself and its one-step neighbours are scored before anything else
	// (a cache whose empty slot answers for one particular vector breaks monotonicity only on a cold process)
	{
		var z CVSS40T
		s40 := NewOS(I40, r)
		if a, err := s40.ReadAll(z); err == nil {
			c0 := v4ClassOf(a)
			score := func(o CVSS40T) (int, string) {
				s, _ := v4ImplScore(&o)
				k, _ := score10(s)
				return k, o.Vector()
			}
			k0, v0 := score(z)
			for m := 0; m < 11; m++ {
				for v, name := range spec.V4SevNames[m] {
					if v == int(c0[m]) || name == "S" {
						continue
					}
					o := z
					if o.Set(v4Base[m], name) != nil {
						continue
					}
					k1, v1 := score(o)
					r.Transitions.Add(1)
					if (v < int(c0[m]) && k1 < k0) || (v > int(c0[m]) && k1 > k0) {
						less, more := v0, v1
						if v > int(c0[m]) {
							less, more = v1, v0
						}
						r.Violation(Case{Kind: "mono-v4", Key: "v4.0/Score/decreases-on-" + spec.V4MetricNames[m] + "@first-calls-of-process",
							Expected: "the more severe of the two vectors scores at least as much", Observed: fmt.Sprintf("Score(%s)=%.1f, Score(%s)=%.1f as the first scoring calls of a fresh process", v0, float64(k0)/10, v1, float64(k1)/10),
							Args:     map[string]any{"less": less, "more": more}}, nil)
					}
				}
			}
		}
	}
	// v4
	table := make(V4Table, spec.V4NumClasses)
	SweepV4(r, "C12", table, false)
	r.Distinct.Store(0)
	r.Transitions.Store(0)
	n := spec.V4NumClasses
	chunk := 1 << 14
	nch := (n + chunk - 1) / chunk
	var strides [spec.V4N]int
	mul := 1
	for i := 0; i < spec.V4N; i++ {
		strides[i] = mul
		mul *= spec.V4Radix[i]
	}
	Parallel(nch, 16, func(ci int) {
		lo, hi := ci*chunk, (ci+1)*chunk
		if hi > n {
			hi = n
		}
		var pairs, strict int64
		for idx := lo; idx < hi; idx++ {
			c := spec.V4ClassFromIndex(idx)
			s := table[idx]
			for m := 0; m < spec.V4N; m++ {
				for v := 0; v < int(c[m]); v++ { // every strictly more severe value
					idx2 := idx - (int(c[m])-v)*strides[m]
					s2 := table[idx2]
					pairs++
					if s2 > s {
						strict++
					}
					if s == v4Bad || s2 == v4Bad {
						continue
					}
					if s2 < s {
						c2 := c
						c2[m] = int8(v)
						r1, r2 := CanonRepr(c), CanonRepr(c2)
						o1, _ := r1.Object()
						o2, _ := r2.Object()
						r.Violation(Case{Kind: "mono-v4", Key: "v4.0/Score/decreases-on-" + spec.V4MetricNames[m],
							Expected: fmt.Sprintf("Score(%s) >= %.1f = Score(%s)", o2.Vector(), float64(s)/10, o1.Vector()),
							Observed: fmt.Sprintf("%.1f", float64(s2)/10),
							Args:     map[string]any{"less": o1.Vector(), "more": o2.Vector()}}, nil)
					}
				}
			}
		}
		r.Transitions.Add(pairs)
		r.Distinct.Add(strict)
	})
	// v3.1: all metrics, three scores
	monoSweep(r, I31, []int{0, 1, 2, 3, 4, 5, 6, 7, 8, 9, 10, 11, 12, 13}, v3bg(spec.V31), []int{0, 1, 2}, v3rank)
	// v3.0: base and temporal
	monoSweep(r, I30, []int{0, 1, 2, 3, 4, 5, 6, 7, 8, 9, 10}, v3bg(spec.V30), []int{0, 1}, v3rank)
	// v2: base and temporal
	bg2 := v2zero()
	for i := 6; i < 14; i++ {
		bg2[i] = int8(spec.V2.NDIndex(i))
	}
	monoSweep(r, I20, []int{0, 1, 2, 3, 4, 5, 6, 7, 8}, bg2, []int{0, 1}, v2rank)
	// across the representation boundary: Modified metric X (= base value) -> a defined more / less severe value
	modifiedMono(r)
	r.Evaluations.Store(r.Transitions.Load())
	r.Bound = "complete neighbourhood graph on effective classes: v4 all metrics; v3.1 all 14 scoring metrics x 3 scores; v3.0 and v2 base+temporal metrics x 2 scores (v3.0 EnvironmentalScore excluded by the property); plus the X -> defined-value steps of every Modified metric from every all-X object (v3.1: 2,592 base x 64 CR/IR/AR; v4.0: 104,976 base x 3 E); deeper Modified representations are tied to these by C10"
	r.Sample(map[string]any{"pair": []string{"CVSS:4.0/AV:A/AC:L/AT:N/PR:N/UI:N/VC:H/VI:H/VA:H/SC:N/SI:N/SA:N", "CVSS:4.0/AV:N/AC:L/AT:N/PR:N/UI:N/VC:H/VI:H/VA:H/SC:N/SI:N/SA:N"}, "relation": "second >= first"})
	r.Assumptions = []string{"severity orders taken from the specification documents (S: Changed above Unchanged; X ranks with its default; equal-rank values are not compared)", "representation independence (C10) carries the result to objects with Modified metrics"}
}

func init() {
	replayers["mono-v4"] = func(c *Case) string {
		o1, e1 := gocvss40.ParseVector(argStr(c, "less"))
		o2, e2 := gocvss40.ParseVector(argStr(c, "more"))
		if e1 != nil || e2 != nil {
			return "replay vectors rejected"
		}
		if s1, s2 := o1.Score(), o2.Score(); s2 < s1 {
			return fmt.Sprintf("Score(%s)=%.1f < Score(%s)=%.1f", argStr(c, "more"), s2, argStr(c, "less"), s1)
		}
		return ""
	}
	replayers["mono"] = func(c *Case) string {
		vec, metric, value, method := argStr(c, "vector"), argStr(c, "metric"), argStr(c, "value"), argStr(c, "method")
		run := func(score func(set bool) (float64, error)) string {
			s1, err := score(false)
			if err != nil {
				return err.Error()
			}
			s2, err := score(true)
			if err != nil {
				return err.Error()
			}
			if s2 < s1 {
				return fmt.Sprintf("%s falls from %.1f to %.1f when %s becomes %s on %s", method, s1, s2, metric, value, vec)
			}
			return ""
		}
		switch argStr(c, "version") {
		case "2.0":
			return run(func(set bool) (float64, error) {
				o, err := gocvss20.ParseVector(vec)
				if err != nil {
					return 0, err
				}
				if set {
					o.Set(metric, value)
				}
				for _, sf := range I20.Scores {
					if sf.Name == method {
						return sf.F(o), nil
					}
				}
				return 0, fmt.Errorf("no method")
			})
		case "3.0":
			return run(func(set bool) (float64, error) {
				o, err := gocvss30.ParseVector(vec)
				if err != nil {
					return 0, err
				}
				if set {
					o.Set(metric, value)
				}
				for _, sf := range I30.Scores {
					if sf.Name == method {
						return sf.F(o), nil
					}
				}
				return 0, fmt.Errorf("no method")
			})
		default:
			return run(func(set bool) (float64, error) {
				o, err := gocvss31.ParseVector(vec)
				if err != nil {
					return 0, err
				}
				if set {
					o.Set(metric, value)
				}
				for _, sf := range I31.Scores {
					if sf.Name == method {
						return sf.F(o), nil
					}
				}
				return 0, fmt.Errorf("no method")
			})
		}
	}
}
