package engine

import (
	"fmt"

	"verif/mc/spec"
)

// v4ClassOf derives the effective class (severity indices) of a v4 assignment given in spec.V4 table order.
func v4ClassOf(a spec.Assignment) spec.V4Class {
	ver := spec.V4
	idx := func(abv string) int { return ver.Index(abv) }
	var c spec.V4Class
	for i := 0; i < 11; i++ {
		base := int(a[idx(v4Base[i])])
		mod := int(a[idx(v4Mod[i])])
		sev := base
		if i == spec.V4SI || i == spec.V4SA {
			sev = base + 1 // base list H,L,N against severity list S,H,L,N
			if mod != 0 {
				sev = mod - 1 // X,S,H,L,N
			}
		} else if mod != 0 {
			sev = mod - 1 // X followed by the base list
		}
		c[i] = int8(sev)
	}
	for i := 11; i < 15; i++ {
		v := int(a[idx(v4Base[i])])
		if v == 0 {
			c[i] = 0 // X scores as the default: E:A, CR/IR/AR:H
		} else {
			c[i] = int8(v - 1)
		}
	}
	return c
}

// ColdStart evaluates the scoring methods of distinguished objects (the zero value, all-first, all-last and
// alternating values) as the FIRST calls of the process, i.e. under the empty call history, which the big
// sweeps exercise for one arbitrary object only. Oracle: the exact models.
func ColdStart(r *Report) {
	if err := spec.V4Init(); err != nil {
		return
	}
	defer ColdFirst(r) // every scoring method as the first scoring call of its own fresh process
	report := func(ver *spec.Version, vec, key, exp, obs string) {
		r.Violation(Case{Kind: "cold", Key: key + "@first-call-of-process", Expected: exp, Observed: obs + " on " + vec + " as the first scoring call of a fresh process",
			Args: map[string]any{"version": ver.Name, "vector": vec}}, nil)
	}
	// v4 first (the zero value before anything else was scored)
	{
		s := NewOS(I40, r)
		var z CVSS40T
		objs := []CVSS40T{z}
		for _, bg := range s.Backgrounds()[1:] {
			if o, err := s.Build(bg); err == nil {
				objs = append(objs, o)
			}
		}
		for _, o := range objs {
			a, err := s.ReadAll(o)
			if err != nil {
				continue
			}
			want, _, _ := spec.V4Score(v4ClassOf(a))
			oo := o
			sc, p := v4ImplScore(&oo)
			if k, ok := score10(sc); p != nil || !ok || k != want {
				report(spec.V4, oo.Vector(), "v4.0/Score/wrong-score", fmt.Sprintf("%.1f", float64(want)/10), fmt.Sprintf("%v (panic=%v)", sc, p))
			}
			r.Transitions.Add(1)
		}
	}
	{
		s := NewOS(I31, r)
		var z CVSS31T
		objs := []CVSS31T{z}
		for _, bg := range s.Backgrounds()[1:] {
			if o, err := s.Build(bg); err == nil {
				objs = append(objs, o)
			}
		}
		for _, o := range objs {
			if a, err := s.ReadAll(o); err == nil {
				oo := o
				if k, e, ob := v3CheckObj(I31, a, &oo); k != "" {
					report(spec.V31, oo.Vector(), k, e, ob)
				}
				r.Transitions.Add(5)
			}
		}
	}
	{
		s := NewOS(I30, r)
		var z CVSS30T
		objs := []CVSS30T{z}
		for _, bg := range s.Backgrounds()[1:] {
			if o, err := s.Build(bg); err == nil {
				objs = append(objs, o)
			}
		}
		for _, o := range objs {
			if a, err := s.ReadAll(o); err == nil {
				oo := o
				if k, e, ob := v3CheckObj(I30, a, &oo); k != "" {
					report(spec.V30, oo.Vector(), k, e, ob)
				}
				r.Transitions.Add(5)
			}
		}
	}
	{
		s := NewOS(I20, r)
		var z CVSS20T
		objs := []CVSS20T{z}
		for _, bg := range s.Backgrounds()[1:] {
			if o, err := s.Build(bg); err == nil {
				objs = append(objs, o)
			}
		}
		for _, o := range objs {
			if a, err := s.ReadAll(o); err == nil {
				oo := o
				if k, e, ob := v2CheckObj(a, &oo); k != "" {
					report(spec.V2, oo.Vector(), k, e, ob)
				}
				r.Transitions.Add(5)
			}
		}
	}
}

func init() {
	replayers["cold"] = func(c *Case) string {
		// a cold-start case is replayed by this very process: the replayer runs before any other scoring call
		if err := spec.V4Init(); err != nil {
			return err.Error()
		}
		vec := argStr(c, "vector")
		switch argStr(c, "version") {
		case "4.0":
			a, ok := spec.V4.Parse(vec)
			if !ok {
				return "replay vector not in the language"
			}
			o, _ := NewOS(I40, NewReport("x", "quick", 0)).Build(a)
			want, _, _ := spec.V4Score(v4ClassOf(a))
			sc, p := v4ImplScore(&o)
			if k, ok := score10(sc); p != nil || !ok || k != want {
				return fmt.Sprintf("first Score() of the process on %s = %v, want %.1f", vec, sc, float64(want)/10)
			}
			return ""
		case "3.1":
			a, o, err := objForReplay(I31, c)
			if err != nil {
				return err.Error()
			}
			k, e, ob := v3CheckObj(I31, a, &o)
			if k != "" {
				return k + ": expected " + e + "; observed " + ob
			}
		case "3.0":
			a, o, err := objForReplay(I30, c)
			if err != nil {
				return err.Error()
			}
			k, e, ob := v3CheckObj(I30, a, &o)
			if k != "" {
				return k + ": expected " + e + "; observed " + ob
			}
		case "2.0":
			a, o, err := objForReplay(I20, c)
			if err != nil {
				return err.Error()
			}
			k, e, ob := v2CheckObj(a, &o)
			if k != "" {
				return k + ": expected " + e + "; observed " + ob
			}
		}
		return ""
	}
}
