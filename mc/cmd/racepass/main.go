// Command racepass: the free-running side pass of C14. The same bodies as the schedule
// explorer, on 16 goroutines with the REAL sync.Pool, built with -race. The cooperative
// scheduler's hand-offs are happens-before edges that blind a race detector, so
// unsynchronised sharing is looked for here. This is a detector run, not an enumeration.
package main

import (
	"fmt"
	"os"
	"runtime"
	"strconv"
	"sync"

	"verif/mc/bodies"
)

func main() {
	iters := 2000
	if len(os.Args) > 1 {
		iters, _ = strconv.Atoi(os.Args[1])
	}
	// isolated results, sequentially
	var iso []string
	for _, b := range bodies.Bodies {
		var keep []bodies.Retained
		iso = append(iso, b.Run(&keep))
	}
	var wg sync.WaitGroup
	var mu sync.Mutex
	bad := map[string]string{}
	g := 16
	for w := 0; w < g; w++ {
		wg.Add(1)
		go func(w int) {
			defer wg.Done()
			var keep []bodies.Retained
			for i := 0; i < iters; i++ {
				k := (i*7 + w*3) % len(bodies.Bodies)
				r := bodies.Bodies[k].Run(&keep)
				if r != iso[k] {
					mu.Lock()
					bad["result-depends-on-concurrency/"+bodies.Bodies[k].Name] = fmt.Sprintf("%q, alone %q", r, iso[k])
					mu.Unlock()
				}
				if i%64 == 0 {
					runtime.Gosched()
				}
				if i%500 == 250 && w == 0 {
					runtime.GC() // lets sync.Pool drop its items: fresh buffers re-enter the game
				}
			}
			for _, kp := range keep {
				if now := kp.Now(); now != kp.Clone {
					mu.Lock()
					bad["returned-value-changed"] = fmt.Sprintf("%q became %q", kp.Clone, now)
					mu.Unlock()
				}
			}
		}(w)
	}
	wg.Wait()
	if !bodies.SharedUnchanged() {
		bad["shared-object-changed"] = "a shared read-only object changed"
	}
	for k, v := range bad {
		fmt.Printf("RACEPASS-VIOLATION %s :: %s\n", k, v)
	}
	fmt.Printf("racepass goroutines=%d iterations=%d calls=%d bad=%d\n", g, iters, g*iters, len(bad))
	if len(bad) > 0 {
		os.Exit(1)
	}
}
