// Command racepass: the free-running side pass of C14. The same bodies as the schedule
// explorer, on 16 goroutines with the REAL sync.Pool, built with -race. The cooperative
// scheduler's hand-offs are happens-before edges that blind a race detector, so
// unsynchronised sharing is looked for here. This is a detector run, not an enumeration.
package main

import (
	"fmt"
	"os"
	"runtime"
	"strconv"
	"sync"

	"verif/mc/bodies"
)

func main() {
	iters := 2000
	if len(os.Args) > 1 {
		iters, _ = strconv.Atoi(os.Args[1])
	}
	// NOTHING of the code under test runs before the goroutines start: the first calls of the process are
	// concurrent (lazily initialised tables, caches). The expected results are computed afterwards, sequentially.
	nb := len(bodies.Bodies)
	var wg sync.WaitGroup
	var mu sync.Mutex
	bad := map[string]string{}
	g := 16
	seen := make([]map[string]bool, nb) // every distinct result observed per body
	for i := range seen {
		seen[i] = map[string]bool{}
	}
	start := make(chan struct{})
	for w := 0; w < g; w++ {
		wg.Add(1)
		go func(w int) {
			defer wg.Done()
			var keep []bodies.Retained
			local := make([]map[string]bool, nb)
			for i := range local {
				local[i] = map[string]bool{}
			}
			<-start
			for i := 0; i < iters; i++ {
				k := (i*7 + w*3) % nb
				var r string
				func() {
					defer func() {
						if p := recover(); p != nil {
							r = fmt.Sprintf("PANIC: %v", p)
						}
					}()
					r = bodies.Bodies[k].Run(&keep)
				}()
				if !local[k][r] {
					local[k][r] = true
					mu.Lock()
					seen[k][r] = true
					mu.Unlock()
				}
				if i%64 == 0 {
					runtime.Gosched()
				}
				if i%500 == 250 && w == 0 {
					runtime.GC() // lets sync.Pool drop its items: fresh buffers re-enter the game
				}
			}
			for _, kp := range keep {
				if now := kp.Now(); now != kp.Clone {
					mu.Lock()
					bad["returned-value-changed"] = fmt.Sprintf("%q became %q", kp.Clone, now)
					mu.Unlock()
				}
			}
		}(w)
	}
	close(start)
	wg.Wait()
	// expected results, sequentially, after the concurrent phase
	for k, b := range bodies.Bodies {
		var keep []bodies.Retained
		iso := b.Run(&keep)
		for r := range seen[k] {
			if r != iso {
				bad["result-depends-on-concurrency/"+b.Name] = fmt.Sprintf("%q, alone %q", r, iso)
			}
		}
	}
	if !bodies.SharedUnchanged() {
		bad["shared-object-changed"] = "a shared read-only object changed"
	}
	for k, v := range bad {
		fmt.Printf("RACEPASS-VIOLATION %s :: %s\n", k, v)
	}
	fmt.Printf("racepass goroutines=%d iterations=%d calls=%d bad=%d\n", g, iters, g*iters, len(bad))
	if len(bad) > 0 {
		os.Exit(1)
	}
}
