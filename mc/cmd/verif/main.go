// Command verif runs the model-checking engines against the go-cvss working tree.
package main

import (
	"fmt"
	"os"
	"runtime/debug"
	"strconv"

	"verif/mc/engine"
)

var checks = map[string]func(*engine.Report){
	"C01": engine.CheckC01,
	"C06": engine.CheckC06,
	"C08": engine.CheckC08,
	"C09": engine.CheckC09,
	"C13": engine.CheckC13,
	"C18": engine.CheckC18,
	"C17": engine.CheckC17,
	"C14": engine.CheckC14,
	"C15": engine.CheckC15,
	"C16": engine.CheckC16,
	"C02": engine.CheckC02,
	"C07": engine.CheckC07,
	"C10": engine.CheckC10,
	"C11": engine.CheckC11,
	"C12": engine.CheckC12,
	"C03": engine.CheckC03,
	"C04": engine.CheckC04,
	"C05": engine.CheckC05,
}

func main() {
	if len(os.Args) < 2 {
		fmt.Fprintln(os.Stderr, "usage: verif check <ID> <quick|thorough> | replay <file>")
		os.Exit(2)
	}
	debug.SetGCPercent(400)
	debug.SetMemoryLimit(24 << 30) // soft limit: the GC works harder instead of letting a violation flood exhaust the machine
	if d := os.Getenv("VERIF_DIR"); d != "" {
		engine.VerifDir = d
	}
	if d := os.Getenv("VERIF_REPO"); d != "" {
		engine.RepoDir = d // development aid: check a scratch copy of the repository
	}
	if d := os.Getenv("VERIF_EVIDENCE_DIR"); d != "" {
		engine.OutDir = d
	}
	switch os.Args[1] {
	case "check":
		if len(os.Args) < 4 {
			fmt.Fprintln(os.Stderr, "usage: verif check <ID> <quick|thorough>")
			os.Exit(2)
		}
		id, tier := os.Args[2], os.Args[3]
		f, ok := checks[id]
		if !ok {
			fmt.Fprintln(os.Stderr, "unknown check", id)
			os.Exit(2)
		}
		seed, _ := strconv.ParseInt(os.Getenv("VERIF_SEED"), 10, 64)
		r := engine.NewReport(id, tier, seed)
		f(r)
		os.Exit(r.Finish())
	case "warm":
		engine.Warm()
	case "coldfirst":
		k, _ := strconv.Atoi(os.Args[3])
		at, _ := strconv.Atoi(os.Args[4])
		engine.ColdFirstWorker(os.Args[2], k, at)
	case "c14cold":
		engine.C14Cold(os.Args[2], os.Args[3])
	case "c17worker":
		i, _ := strconv.Atoi(os.Args[2])
		n, _ := strconv.Atoi(os.Args[3])
		engine.C17Worker(i, n, os.Args[4])
	case "replay":
		os.Exit(engine.Replay(os.Args[2]))
	default:
		fmt.Fprintln(os.Stderr, "unknown command", os.Args[1])
		os.Exit(2)
	}
}
