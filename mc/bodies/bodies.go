// Package bodies holds the call bodies shared by the schedule explorer (E4) and the
// free-running race pass. It only uses the exported API of the code under test.
package bodies

import (
	"fmt"
	"strings"

	gocvss20 "github.com/pandatix/go-cvss/20"
	gocvss30 "github.com/pandatix/go-cvss/30"
	gocvss31 "github.com/pandatix/go-cvss/31"
	gocvss40 "github.com/pandatix/go-cvss/40"
)

// ---------- bodies ----------

const (
	full14 = "AV:N/AC:M/Au:S/C:P/I:C/A:N/E:POC/RL:W/RC:UR/CDP:MH/TD:M/CR:H/IR:L/AR:ND"
	alt14  = "AV:L/AC:H/Au:M/C:C/I:N/A:P/E:U/RL:OF/RC:UC/CDP:L/TD:L/CR:L/IR:H/AR:M"
	base6  = "AV:A/AC:L/Au:N/C:C/I:P/A:C"
	temp9  = "AV:L/AC:H/Au:M/C:N/I:N/A:P/E:H/RL:U/RC:C"
	env11  = "AV:N/AC:L/Au:N/C:N/I:P/A:N/CDP:H/TD:H/CR:M/IR:M/AR:H"
)

// Retained remembers a string returned by Vector() together with a clone taken at that moment.
type Retained struct {
	Orig, Clone string
	Err         error // when set, the retained thing is an error value whose message must stay Clone
}

// Now returns what the retained string / error message reads now.
func (r Retained) Now() string {
	if r.Err != nil {
		return r.Err.Error()
	}
	return r.Orig
}

func keepErr(keep *[]Retained, err error) string {
	if err == nil {
		return "<nil>"
	}
	msg := strings.Clone(err.Error())
	*keep = append(*keep, Retained{Clone: msg, Err: err})
	return fmt.Sprintf("%T:%s", err, msg)
}

type Body struct {
	Name string
	Run  func(keep *[]Retained) string
}

// The shared objects are built with Set, not ParseVector: nothing parses before the first explored call of a
// fresh process, so the cold-start phases really see the parsers cold.
func setAll(set func(abv, value string) error, vector string) {
	for _, kv := range strings.Split(vector, "/") {
		if k, v, ok := strings.Cut(kv, ":"); ok && k != "CVSS" {
			if err := set(k, v); err != nil {
				panic("bodies: cannot build shared object: " + kv + ": " + err.Error())
			}
		}
	}
}

var shared20 = func() (o gocvss20.CVSS20) { setAll(o.Set, full14); return }()
var shared31 = func() (o gocvss31.CVSS31) {
	setAll(o.Set, "CVSS:3.1/AV:N/AC:L/PR:N/UI:R/S:C/C:H/I:L/A:N/E:F/MAV:A")
	return
}()
var shared40 = func() (o gocvss40.CVSS40) {
	setAll(o.Set, "CVSS:4.0/AV:N/AC:L/AT:N/PR:N/UI:N/VC:H/VI:L/VA:N/SC:N/SI:N/SA:N/E:P/MSI:S/U:Amber")
	return
}()

var shared20Copy, shared31Copy, shared40Copy = shared20, shared31, shared40

func res20(o *gocvss20.CVSS20, err error, keep *[]Retained) string {
	if err != nil {
		if o != nil {
			return "err+obj:" + err.Error()
		}
		return "err:" + err.Error()
	}
	v := o.Vector()
	*keep = append(*keep, Retained{Orig: v, Clone: strings.Clone(v)})
	return fmt.Sprintf("ok:%s b=%v t=%v e=%v", v, o.BaseScore(), o.TemporalScore(), o.EnvironmentalScore())
}

func p20(s string) func(*[]Retained) string {
	return func(keep *[]Retained) string { o, err := gocvss20.ParseVector(s); return res20(o, err, keep) }
}

var Bodies = []Body{
	{"v2.Parse(14)", p20(full14)},
	{"v2.Parse(6)", p20(base6)},
	{"v2.Parse(9)", p20(temp9)},
	{"v2.Parse(11)", p20(env11)},
	{"v2.Parse(14')", p20(alt14)},
	{"v2.Parse(15 elements)", p20(full14 + "/AV:N")},
	{"v2.Parse(too short)", p20("AV:N/AC:L")},
	{"v2.Parse(bad value mid-way)", p20("AV:N/AC:M/Au:S/C:P/I:C/A:N/E:POC/RL:BAD/RC:UR/CDP:MH/TD:M/CR:H/IR:L/AR:ND")},
	{"v2.Parse(order error)", p20("AV:N/AC:M/C:P/Au:S/I:C/A:N")},
	{"v2.Parse(empty)", p20("")},
	{"v2.Parse(5 elements + trailing slash)", p20("AV:L/AC:H/Au:M/C:P/I:P/")},
	{"v2.Parse(13 elements + trailing slash)", p20("AV:L/AC:H/Au:M/C:N/I:N/A:P/E:F/RL:W/RC:UR/CDP:L/TD:L/CR:L/IR:L/")},
	{"v2.shared.Vector+scores", func(keep *[]Retained) string {
		v := shared20.Vector()
		*keep = append(*keep, Retained{Orig: v, Clone: strings.Clone(v)})
		g, _ := shared20.Get("RL")
		return fmt.Sprintf("%s %v %v %v %s", v, shared20.BaseScore(), shared20.TemporalScore(), shared20.EnvironmentalScore(), g)
	}},
	{"v2.own.Set+Vector", func(keep *[]Retained) string {
		o := shared20 // copy
		e1 := o.Set("TD", "H")
		e2 := o.Set("E", "bogus")
		v := o.Vector()
		*keep = append(*keep, Retained{Orig: v, Clone: strings.Clone(v)})
		return fmt.Sprintf("%s %v %v", v, e1, e2)
	}},
	{"v3.1.Parse+Vector+scores", func(keep *[]Retained) string {
		o, err := gocvss31.ParseVector("CVSS:3.1/AV:N/AC:L/PR:N/UI:R/S:C/C:H/I:L/A:N/E:F/MAV:A")
		if err != nil {
			return "err:" + err.Error()
		}
		v := o.Vector()
		*keep = append(*keep, Retained{Orig: v, Clone: strings.Clone(v)})
		return fmt.Sprintf("%s %v %v %v", v, o.BaseScore(), o.TemporalScore(), o.EnvironmentalScore())
	}},
	{"v3.0.Parse(error)", func(keep *[]Retained) string {
		_, err := gocvss30.ParseVector("CVSS:3.0/AV:N/AC:L/PR:N/UI:R/S:C/C:H/I:L")
		return fmt.Sprint(err)
	}},
	{"v4.Parse+Vector+Score", func(keep *[]Retained) string {
		o, err := gocvss40.ParseVector("CVSS:4.0/AV:N/AC:L/AT:N/PR:N/UI:N/VC:H/VI:L/VA:N/SC:N/SI:N/SA:N/E:P/MSI:S/U:Amber")
		if err != nil {
			return "err:" + err.Error()
		}
		v := o.Vector()
		*keep = append(*keep, Retained{Orig: v, Clone: strings.Clone(v)})
		return fmt.Sprintf("%s %v %s", v, o.Score(), o.Nomenclature())
	}},
	{"shared.v3.1+v4.Vector+scores", func(keep *[]Retained) string {
		v1, v2 := shared31.Vector(), shared40.Vector()
		*keep = append(*keep, Retained{Orig: v1, Clone: strings.Clone(v1)}, Retained{Orig: v2, Clone: strings.Clone(v2)})
		return fmt.Sprintf("%s %v %s %v", v1, shared31.EnvironmentalScore(), v2, shared40.Score())
	}},
}

func init() {
	Bodies = append(Bodies,
		Body{"v3.1.Parse(unknown FOO)+Get(unknown)", func(keep *[]Retained) string {
			_, e1 := gocvss31.ParseVector("CVSS:3.1/AV:N/AC:L/PR:N/UI:R/S:C/C:H/I:L/A:N/FOO:X")
			_, e2 := shared31.Get("Zz")
			return keepErr(keep, e1) + " " + keepErr(keep, e2)
		}},
		Body{"v3.1.Parse(unknown BAR, duplicate, missing)", func(keep *[]Retained) string {
			_, e1 := gocvss31.ParseVector("CVSS:3.1/BAR:N/AV:N")
			_, e2 := gocvss31.ParseVector("CVSS:3.1/AV:N/AC:L/AC:H")
			_, e3 := gocvss31.ParseVector("CVSS:3.1/AV:N/AC:L/PR:N/UI:R/S:C/C:H/I:L")
			return keepErr(keep, e1) + " " + keepErr(keep, e2) + " " + keepErr(keep, e3)
		}},
		Body{"v4+v3.1+v3.0 other vectors: Parse+Vector", func(keep *[]Retained) string {
			o4, e4 := gocvss40.ParseVector("CVSS:4.0/AV:P/AC:H/AT:P/PR:H/UI:A/VC:L/VI:N/VA:L/SC:L/SI:L/SA:N")
			o31, e31 := gocvss31.ParseVector("CVSS:3.1/AV:P/AC:H/PR:H/UI:N/S:U/C:L/I:N/A:L")
			o30, e30 := gocvss30.ParseVector("CVSS:3.0/AV:L/AC:H/PR:L/UI:R/S:C/C:N/I:H/A:L/RC:U/MS:U")
			if e4 != nil || e31 != nil || e30 != nil {
				return fmt.Sprint("err:", e4, e31, e30)
			}
			v4, v31, v30 := o4.Vector(), o31.Vector(), o30.Vector()
			*keep = append(*keep, Retained{Orig: v4, Clone: strings.Clone(v4)}, Retained{Orig: v31, Clone: strings.Clone(v31)}, Retained{Orig: v30, Clone: strings.Clone(v30)})
			return v4 + " " + v31 + " " + v30
		}},
		Body{"wrong-header twins of vectors parsed by other bodies", func(keep *[]Retained) string {
			_, e1 := gocvss31.ParseVector("CVSS:3.0/AV:N/AC:L/PR:N/UI:R/S:C/C:H/I:L/A:N/E:F/MAV:A")
			_, e2 := gocvss30.ParseVector("CVSS:3.1/AV:L/AC:H/PR:L/UI:R/S:C/C:N/I:H/A:L/RC:U/MS:U")
			_, e3 := gocvss40.ParseVector("CVSS:3.1/AV:N/AC:L/AT:N/PR:N/UI:N/VC:H/VI:L/VA:N/SC:N/SI:N/SA:N/E:P/MSI:S/U:Amber")
			_, e4 := gocvss31.ParseVector("AV:N/AC:L/PR:N/UI:R/S:C/C:H/I:L/A:N/E:F/MAV:A")
			_, e5 := gocvss20.ParseVector("CVSS:2.0/" + full14)
			return fmt.Sprint(e1, "|", e2, "|", e3, "|", e4, "|", e5)
		}},
		Body{"parse twice, edit the first result, read the second (all versions)", func(keep *[]Retained) string {
			out := ""
			{
				const v = "AV:A/AC:H/Au:M/C:N/I:P/A:P/E:H/RL:U/RC:C" // parsed by no other body
				a, _ := gocvss20.ParseVector(v)
				b, _ := gocvss20.ParseVector(v)
				a.Set("AV", "N")
				a.Set("RC", "UC")
				c, _ := gocvss20.ParseVector(v)
				out += b.Vector() + " " + c.Vector() + " "
			}
			{
				const v = "CVSS:3.0/AV:L/AC:H/PR:L/UI:R/S:C/C:L/I:H/A:L/RC:U/MS:U" // parsed by no other body
				a, _ := gocvss30.ParseVector(v)
				b, _ := gocvss30.ParseVector(v)
				a.Set("AV", "P")
				a.Set("MA", "H")
				c, _ := gocvss30.ParseVector(v)
				out += b.Vector() + " " + c.Vector() + " "
			}
			{
				const v = "CVSS:3.1/AV:N/AC:L/PR:N/UI:R/S:C/C:H/I:L/A:L/E:F/MAV:A" // parsed by no other body
				a, _ := gocvss31.ParseVector(v)
				b, _ := gocvss31.ParseVector(v)
				a.Set("AV", "P")
				a.Set("MAV", "P")
				c, _ := gocvss31.ParseVector(v)
				d, _ := gocvss31.ParseVector("CVSS:3.1/MAV:A/E:F/A:L/I:L/C:H/S:C/UI:R/PR:N/AC:L/AV:N")
				out += d.Vector() + " "
				out += b.Vector() + " " + c.Vector() + " "
			}
			{
				const v = "CVSS:4.0/AV:N/AC:L/AT:N/PR:N/UI:N/VC:H/VI:L/VA:L/SC:N/SI:N/SA:N/E:P/MSI:S/U:Amber" // parsed by no other body
				a, _ := gocvss40.ParseVector(v)
				b, _ := gocvss40.ParseVector(v)
				a.Set("AV", "P")
				a.Set("U", "Red")
				c, _ := gocvss40.ParseVector(v)
				out += b.Vector() + " " + c.Vector()
			}
			return out
		}},
		Body{"scores of other objects built by Set (v3.1 AV:P, v3.0, v4, v2)", func(keep *[]Retained) string {
			var a gocvss31.CVSS31
			for _, kv := range [][2]string{{"AV", "P"}, {"AC", "H"}, {"PR", "H"}, {"UI", "R"}, {"S", "C"}, {"C", "H"}, {"I", "H"}, {"A", "H"}, {"MAV", "L"}} {
				a.Set(kv[0], kv[1])
			}
			var b gocvss30.CVSS30
			for _, kv := range [][2]string{{"AV", "L"}, {"AC", "H"}, {"PR", "L"}, {"UI", "N"}, {"S", "C"}, {"C", "H"}, {"I", "H"}, {"A", "H"}, {"E", "U"}} {
				b.Set(kv[0], kv[1])
			}
			var c gocvss40.CVSS40
			for _, kv := range [][2]string{{"AV", "P"}, {"AC", "H"}, {"AT", "P"}, {"PR", "H"}, {"UI", "A"}, {"VC", "N"}, {"VI", "L"}, {"VA", "N"}, {"SC", "L"}, {"SI", "N"}, {"SA", "N"}, {"E", "U"}, {"MSA", "S"}} {
				c.Set(kv[0], kv[1])
			}
			var d gocvss20.CVSS20
			for _, kv := range [][2]string{{"AV", "N"}, {"AC", "L"}, {"Au", "N"}, {"C", "C"}, {"I", "C"}, {"A", "C"}, {"E", "F"}, {"CDP", "LM"}, {"TD", "M"}, {"CR", "H"}} {
				d.Set(kv[0], kv[1])
			}
			return fmt.Sprint(a.BaseScore(), a.TemporalScore(), a.EnvironmentalScore(), a.Exploitability(), a.Impact(), "|",
				b.BaseScore(), b.TemporalScore(), b.EnvironmentalScore(), "|", c.Score(), c.Nomenclature(), "|",
				d.BaseScore(), d.TemporalScore(), d.EnvironmentalScore())
		}},
		Body{"v3 vectors with several base metrics missing / several defects", func(keep *[]Retained) string {
			out := ""
			for _, v := range []string{"CVSS:3.1/AV:N", "CVSS:3.1/E:H/RL:O/RC:C", "CVSS:3.1/A:N/I:L", "CVSS:3.1/UI:R/S:C/ZZ:N/AV:N/AV:A", "CVSS:3.1/"} {
				_, e := gocvss31.ParseVector(v)
				out += keepErr(keep, e) + " "
				_, e = gocvss30.ParseVector("CVSS:3.0" + v[8:])
				out += keepErr(keep, e) + " "
			}
			for _, v := range []string{"CVSS:4.0/AV:N/AC:L", "CVSS:4.0/ZZ:N/AV:N/AC:Q", "CVSS:4.0", "AV:N/AC:L/Au:N/C:Z/Q:R", "AV:N//"} {
				_, e4 := gocvss40.ParseVector(v)
				_, e2 := gocvss20.ParseVector(v)
				out += keepErr(keep, e4) + " " + keepErr(keep, e2) + " "
			}
			return out
		}},
		Body{"Rating sequences A (3 packages)", func(keep *[]Retained) string {
			out := ""
			for _, sc := range []float64{2.0, 9.5, 11, 11, 2.0, -0.1, 0, 4.0, 6.97, 8.95} {
				a, e1 := gocvss30.Rating(sc)
				b, e2 := gocvss31.Rating(sc)
				c, e3 := gocvss40.Rating(sc)
				out += fmt.Sprint(a, e1, b, e2, c, e3, ";")
			}
			return out
		}},
		Body{"Rating sequences B (3 packages)", func(keep *[]Retained) string {
			out := ""
			for _, sc := range []float64{7.0, 0.1, 10.5, 7.0, 3.9, 10, 10.5, 6.9, 3.96, 9.0, 0.06} {
				a, e1 := gocvss30.Rating(sc)
				b, e2 := gocvss31.Rating(sc)
				c, e3 := gocvss40.Rating(sc)
				out += fmt.Sprint(a, e1, b, e2, c, e3, ";")
			}
			return out
		}},
		Body{"v3.0/v4/v2 unknown-abbreviation errors", func(keep *[]Retained) string {
			_, e1 := gocvss30.ParseVector("CVSS:3.0/QUX:N")
			o4 := shared40
			e2 := o4.Set("Nope", "N")
			_, e3 := shared20.Get("Other")
			o2 := shared20
			e4 := o2.Set("av", "N")
			return keepErr(keep, e1) + " " + keepErr(keep, e2) + " " + keepErr(keep, e3) + " " + keepErr(keep, e4)
		}},
		Body{"v3.0/v4/v2 unknown-abbreviation errors (other names)", func(keep *[]Retained) string {
			_, e1 := gocvss30.ParseVector("CVSS:3.0/AV:N/WHO:N")
			o4 := shared40
			e2 := o4.Set("MZZ", "N")
			_, e3 := shared40.Get("Q")
			_, e4 := shared20.Get("AU")
			return keepErr(keep, e1) + " " + keepErr(keep, e2) + " " + keepErr(keep, e3) + " " + keepErr(keep, e4)
		}},
	)
}

// SharedUnchanged reports whether the shared read-only objects still hold their initial values.
func SharedUnchanged() bool {
	return shared20 == shared20Copy && shared31 == shared31Copy && shared40 == shared40Copy
}

// Bodies added later are appended here so that the indices of the earlier ones stay stable.
func init() {
	const long40a = "CVSS:4.0/AV:N/AC:L/AT:N/PR:N/UI:N/VC:H/VI:L/VA:N/SC:N/SI:N/SA:N/E:P/CR:H/IR:M/AR:L/MAV:A/MAC:H/MAT:P/MPR:L/MUI:P/MVC:L/MVI:N/MVA:H/MSC:L/MSI:S/MSA:N/S:P/AU:Y/R:U/V:C/RE:M/U:Amber"
	const long40b = "CVSS:4.0/AV:P/AC:H/AT:P/PR:H/UI:A/VC:N/VI:N/VA:L/SC:H/SI:L/SA:H/E:U/CR:L/IR:L/AR:H/MAV:L/MAC:L/MAT:N/MPR:H/MUI:A/MVC:H/MVI:H/MVA:L/MSC:N/MSI:L/MSA:S/S:N/AU:N/R:I/V:D/RE:H/U:Clear"
	one := func(name string, f func() string) Body {
		return Body{"one call only: " + name, func(keep *[]Retained) string { return f() }}
	}
	Bodies = append(Bodies,
		Body{"v2.Parse(last element without its colon)", p20("AV:N/AC:L/Au:N/C:N/I:N/A")},
		Body{"v2.Parse(no colon at all)", p20("AV/AC/Au/C/I/A")},
		Body{"v4 long vectors (every metric defined): Vector() of one kept across Vector() of another", func(keep *[]Retained) string {
			var a, b gocvss40.CVSS40
			setAll(a.Set, long40a)
			setAll(b.Set, long40b)
			v1 := a.Vector()
			*keep = append(*keep, Retained{Orig: v1, Clone: strings.Clone(v1)})
			v2 := b.Vector()
			*keep = append(*keep, Retained{Orig: v2, Clone: strings.Clone(v2)})
			return v1 + " " + v2
		}},
		one("v2 EnvironmentalScore", func() string { o := shared20; return fmt.Sprint(o.EnvironmentalScore()) }),
		one("v2 TemporalScore", func() string { o := shared20; return fmt.Sprint(o.TemporalScore()) }),
		one("v3.1 EnvironmentalScore", func() string { o := shared31; return fmt.Sprint(o.EnvironmentalScore()) }),
		one("v3.1 TemporalScore", func() string { o := shared31; return fmt.Sprint(o.TemporalScore()) }),
		one("v3.0 EnvironmentalScore", func() string {
			var o gocvss30.CVSS30
			setAll(o.Set, "CVSS:3.0/AV:L/AC:H/PR:L/UI:R/S:C/C:N/I:H/A:L/E:P/RC:U/CR:L/MS:U/MPR:H")
			return fmt.Sprint(o.EnvironmentalScore())
		}),
		one("v3.0 Impact", func() string {
			var o gocvss30.CVSS30
			setAll(o.Set, "CVSS:3.0/AV:L/AC:H/PR:L/UI:R/S:C/C:N/I:H/A:L")
			return fmt.Sprint(o.Impact())
		}),
		one("v4 Score (object built by Set)", func() string { o := shared40; return fmt.Sprint(o.Score()) }),
		one("v4 Nomenclature", func() string { o := shared40; return o.Nomenclature() }),
	)
}
