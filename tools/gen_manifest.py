#!/usr/bin/env python3
"""Generates /verif/MANIFEST.json from the table below and validates it against the schema."""
import json, sys, os
HERE = os.path.dirname(os.path.dirname(os.path.abspath(__file__)))
BASELINE = json.load(open('/root/.vp/BASELINE.json'))['cmd'] if os.path.exists('/root/.vp/BASELINE.json') else ''

# id: (engine, technique, level text, level note, design ref)
CHECKS = {
 'C02': ('objspace', 'explicit-state enumeration of object states (full products of free metrics) on the implementation, reference serialiser as oracle',
         'Every object state of the swept sub-spaces (v2: all 139,968,000 in thorough; v3/v4: all t-wise subsets, storage-order windows and presence subsets over 3 backgrounds) is built through the real Set, serialised and re-parsed; result must be == and Get-equal. Exhaustive for v2, bounded-exhaustive for v3/v4.',
         'Trusted: reference tables/serialiser in mc/spec; reachability of only canonical states relies on the closure check of C07.', '5 C02, 4 E2'),
 'C04': ('scorespace', 'exhaustive enumeration of all 15,116,544 effective classes against an exact integer model',
         'Score() of every effective class (all 270 MacroVectors) equals the exact-integer evaluation of the specification algorithm with derived maxima/depths. Complete for effective classes; lifted to all representations by C10.',
         'Trusted: frozen MacroVector table (independent transcription), EQ predicates transcribed from the specification.', '5 C04, 4 E3'),
 'C07': ('objspace', 'explicit-state reachability closure: every (state, Set) transition compared with the canonical successor',
         'For every state of the sweeps and every Set transition (legal values, illegal values, unknown abbreviations) the successor is == the canonical object of the model successor; failed Set changes nothing; plus BFS over Set histories from the zero value and parsed objects.',
         'Trusted: array model of Set/Get in mc/spec; v3/v4 bounded to t-wise + windows + presence subsets.', '5 C07, 4 E2'),
}
NOT_YET = {}

def main():
    props = [json.loads(l) for l in open(os.path.join(HERE, 'properties.jsonl'))]
    checks = []
    na = []
    for p in props:
        pid = p['id']
        if pid in CHECKS:
            eng, tech, text, note, ref = CHECKS[pid]
            checks.append({
                'property_id': pid,
                'quick_cmd': f'./run.sh {pid} quick',
                'thorough_cmd': f'./run.sh {pid} thorough',
                'evidence_file': f'/verif/evidence/{pid}.json',
                'replay_cmd_template': './run.sh replay {path}',
                'engine': eng,
                'level_claimed': {'category': 'model_checking', 'text': text, 'design_ref': 'DESIGN.md section ' + ref},
                'level_note': note,
                'technique': tech,
            })
        else:
            na.append({'property_id': pid, 'reason': NOT_YET.get(pid, 'check not built yet in this revision of /verif (planned, see DESIGN.md section 5); not claimed until its engine exists')})
    m = {
        'version': 1,
        'setup_cmd': './setup.sh',
        'hooks': {
            'guard': 'verif',
            'enable': 'no guarded source exists in /repo: all observation is through the exported API; the only instrumentation (C14) is a go build -overlay generated at check time from the working tree',
            'baseline_off_cmd': BASELINE,
            'source_commits': [],
            'add_only': True,
        },
        'engines': ENGINES,
        'checks': checks,
        'notes': 'All checks rebuild the harness (module /verif/mc, replace => /repo) from /repo\'s working tree on every invocation. Genuine defects repaired in /repo: see KNOWN_FINDINGS.txt (fixed: lines).',
        'not_applicable': na,
    }
    out = os.path.join(HERE, 'MANIFEST.json')
    json.dump(m, open(out, 'w'), indent=1)
    try:
        import jsonschema
        jsonschema.validate(m, json.load(open('/root/.vp/MANIFEST.schema.json')))
        print('MANIFEST.json valid;', len(checks), 'checks,', len(na), 'not claimed')
    except ImportError:
        print('jsonschema not available; written without validation')

ENGINES = [
 {'name': 'objspace', 'path': 'mc/engine/objspace.go', 'serves_properties': ['C02', 'C07', 'C09', 'C16'], 'kind_free_text': 'explicit-state exploration of the packed objects as a transition system (states = metric assignments, transitions = Set/ParseVector), on the implementation, array model as oracle'},
 {'name': 'scorespace', 'path': 'mc/engine/score4.go', 'serves_properties': ['C03', 'C04', 'C05', 'C10', 'C11', 'C12'], 'kind_free_text': 'exhaustive enumeration of effective metric classes against exact (integer/rational) executable specifications; deviation-bounded lifting to representations'},
]
if __name__ == '__main__':
    main()
