#!/usr/bin/env python3
"""Generates /verif/MANIFEST.json from the table below and validates it against the schema."""
import json, sys, os
HERE = os.path.dirname(os.path.dirname(os.path.abspath(__file__)))
BASELINE = json.load(open('/root/.vp/BASELINE.json'))['cmd'] if os.path.exists('/root/.vp/BASELINE.json') else ''

# id: (engine, technique, level text, level note, design ref)
CHECKS = {
 'C01': ('strspace', 'bounded-exhaustive enumeration of input strings (all single byte/element edits of systematic seeds, pairs of element edits, language enumerations, header matrix) run on all four parsers against a reference recogniser',
         'Every string of the enumerated neighbourhoods and languages gets the verdict of the reference grammar from each parser, with the nil/non-nil conventions and without panic. Exhaustive within the stated edit bounds; thorough enumerates the whole v2 language, all 2^22 v3 metric sets and all 2^21 v4 optional subsets.',
         'Trusted: reference grammar mc/spec/grammar.go (two formulations cross-checked on every string). Strings further than the edit bound from every seed are not explored.', '5 C01, 4 E1'),
 'C02': ('objspace', 'explicit-state enumeration of object states (full products of free metrics) on the implementation, reference serialiser as oracle',
         'Every object state of the swept sub-spaces (v2: all 139,968,000 in thorough; v3/v4: all t-wise subsets, storage-order windows and presence subsets over 3 backgrounds) is built through the real Set, serialised and re-parsed; result must be == and Get-equal, independent of an earlier parse result that was edited, and the returned string must still read the same one state later; an object reached by Set calls that does not read back is still required to serialise to an accepted string that parses to an == object. Exhaustive for v2, bounded-exhaustive for v3/v4.',
         'Trusted: reference tables/serialiser in mc/spec; reachability of only canonical states relies on the closure check of C07.', '5 C02, 4 E2'),
 'C03': ('scorespace', 'exhaustive enumeration of all 2 x 16,588,800 effective classes against an exact rational/integer model',
         'BaseScore, TemporalScore, EnvironmentalScore (and Impact/Exploitability) of every effective class of v3.0 and v3.1 equal the exact evaluation of the specification equations. Complete for effective classes in canonical representation, plus one alternative representation per overridable metric and the all-overridden pattern, plus a cold start (distinguished objects scored first in the process); deeper representation bounds in C10.',
         'Trusted: weights/equations transcribed into mc/spec/score3.go; big.Rat arithmetic.', '5 C03, 4 E3'),
 'C04': ('scorespace', 'exhaustive enumeration of all 15,116,544 effective classes against an exact integer model',
         'Score() of every effective class (all 270 MacroVectors) equals the exact-integer evaluation of the specification algorithm with derived maxima/depths. Complete for effective classes in canonical representation, plus all-overridden/supplemental representations and single deviations on a sub-lattice (all classes in thorough), plus a cold start; deeper representation bounds in C10.',
         'Trusted: frozen MacroVector table (independent transcription), EQ predicates transcribed from the specification.', '5 C04, 4 E3'),
 'C05': ('scorespace', 'complete enumeration of all 139,968,000 v2.0 assignments against an exact rational model with tie sets',
         'All three scores and both sub-scores of every v2.0 metric assignment conform to the guide equations (both neighbours allowed at exact half-way points, propagated through the cascaded roundings). Complete.',
         'Trusted: weights/equations transcribed into mc/spec/score2.go.', '5 C05, 4 E3'),
 'C06': ('strspace', 'bounded-exhaustive enumeration of accepted strings; Get compared with the reference parser',
         'For every accepted string of the E1 spaces (whole v2 language in thorough) every Get equals what the reference parser extracted, also after an earlier result of the same string was edited (no aliasing); plus a volume phase parsing the canonical strings of 185 M objects in one process against the objects built by Set.',
         'Trusted: reference parser; v3 orders / v4 value combinations outside the enumerated families are not explored.', '5 C06, 4 E1'),
 'C07': ('objspace', 'explicit-state reachability closure: every (state, Set) transition compared with the canonical successor',
         'For every state of the sweeps and every Set transition (legal values, illegal values, unknown abbreviations) the successor is == the canonical object of the model successor; failed Set changes nothing; plus BFS over Set histories from the zero value and parsed objects.',
         'Trusted: array model of Set/Get in mc/spec; v3/v4 bounded to t-wise + windows + presence subsets.', '5 C07, 4 E2'),
 'C08': ('strspace', 'bounded-exhaustive enumeration of accepted strings; Vector() compared with the reference canonical serialiser',
         'For every accepted string of the E1 spaces ParseVector(s).Vector() is the reference canonical spelling, parse-then-serialise is idempotent, the returned string does not change when other objects are serialised afterwards, and the result does not depend on which one-metric neighbour was serialised just before.',
         'Trusted: reference canonical serialiser.', '5 C08, 4 E1'),
 'C09': ('objspace', 'exhaustive enumeration of an abbreviation x value alphabet on several states + state invariants on all swept states',
         'Get/Set accept exactly table members over an alphabet of thousands of abbreviations x values (all edit-distance-1 strings, look-alike runes, padded lengths); every swept state is well formed (legal Get, grammatical and faithful Vector, scoring without panic).',
         'Trusted: tables in mc/spec/tables.go. Strings further than one byte edit from legal ones are represented by variants only.', '5 C09, 4 E2'),
 'C10': ('scorespace', 'deviation-bounded exhaustive lifting, differential: every effective class x every alternative representation within the bound against the implementation\'s own score table of the canonical representatives',
         'Scores depend on overridable metrics only through effective values, defaults score as the specification says, supplemental metrics are ignored: checked for every class and every representation with <= k deviations (k=1 quick, k=2 thorough) plus all-overridden patterns.',
         'No model is involved: the oracle is the implementation\'s own canonical score table (tied to the specification by C03/C04). Representations with more deviations than the bound are covered only by the all-overridden patterns.', '5 C10, 4 E3'),
 'C11': ('scorespace', 'exhaustive enumeration of classes/assignments; format predicate on every returned score',
         'Every score returned on the complete v2 space, all v3 classes and all v4 classes (canonical and overridden representations) is finite, exactly k/10, in range, accepted by Rating; no panic.',
         'Representation independence (C10) carries the result to the remaining objects.', '5 C11, 4 E3'),
 'C12': ('scorespace', 'exhaustive exploration of the one-metric neighbourhood graph on the implementation\'s own score tables',
         'For every effective class and every strictly more severe value of every metric the score does not decrease (v4 Score; v3.1 three scores; v3.0 and v2 base and temporal). Complete on effective classes; plus every step from a Modified metric at X to a defined more / less severe value from every all-X object (v3.1, v4.0); model independent.',
         'Trusted: severity orders from the specifications.', '5 C12, 4 E3'),
 'C13': ('strspace', 'bounded-exhaustive enumeration of strings against all four parsers + Vector() of swept objects against the other parsers',
         'No string of the E1 spaces (incl. the header matrix) is accepted by two parsers; Vector() of every swept object is rejected by the three other parsers.',
         'A doubly accepted string would have to lie inside the explored neighbourhoods.', '5 C13, 4 E1'),
 'C14': ('sched', 'stateless exploration of all schedules and pool answers under a controlled scheduler (sync and sync/atomic redirected to shims by build overlay, loop-level points inserted by AST rewriting), DFS with replay, preemption bounding; all call histories to a depth; cold/warm differential; -race side pass',
         'Every interleaving at sync / sync.atomic operations (plus, in the fine-grained phases, at every loop head of the instrumented files) and every pool answer of 2-3 thread harnesses (complete or preemption-bounded as stated), every call history up to depth 3/4, and a cold-vs-warm differential in a fresh process give each call the result it has in isolation; returned strings and error values never change; shared objects unchanged; no deadlock. Unsynchronised sharing is looked for by a free-running -race pass (a detector, not an enumeration).',
         'Trusted: the shims model sync.Pool as a bag with arbitrary drops and Mutex/RWMutex/Once as flags with parked waiters; sequentially consistent interleavings; package-level state that is neither sync nor sync/atomic is not reset between executions (divergent replays are reported and not judged).', '5 C14, 4 E4'),
 'C15': ('numspace', 'exhaustive enumeration of all 2^32 float32 values + ulp neighbourhoods of every threshold, three packages',
         'Rating equals the interval table on every float32 value, every float64 within 4096 ulps of a threshold, grids and specials, identically in the three packages.',
         'float64 values neither float32-representable nor near a threshold are covered by grids only.', '5 C15, 4 E5'),
 'C16': ('objspace', 'exhaustive enumeration of threat/environmental assignments (full product in thorough) with an odometer on the implementation',
         'Nomenclature equals the group-presence definition on every presence subset and (thorough) on the full product of the 15 threat+environmental metrics x 3 backgrounds.',
         'Objects are built through Set (C07).', '5 C16, 4 E2'),
 'C17': ('numspace', 'exhaustive per-call allocation measurement over all presence subsets / metrics / values in dedicated worker processes',
         'Mallocs delta of single calls is within the documented budget for every presence subset of optional metrics, every metric/value for Get/Set, Rating and Nomenclature; every scoring method on the canonical object of every effective class of every version (batches of 4096 objects between two readings of the counter).',
         'Measured on the toolchain in the image (go1.23.5 amd64); runtime Mallocs counter.', '5 C17, 4 E5'),
 'C18': ('strspace', 'bounded-exhaustive enumeration of single-defect strings classified by a reference automaton; errors.Is/As on the result',
         'Every string of the E1 spaces that has exactly one well-defined defect yields the documented error value (incl. the named abbreviation; being accepted is not that value); Get/Set error values on the full C09 alphabets. One known finding (v2, element after a complete environmental group).',
         'Trusted: repair-based classifier mc/spec/classify.go; ambiguous strings are not asserted.', '5 C18, 4 E1'),
}
NOT_YET = {}

def main():
    props = [json.loads(l) for l in open(os.path.join(HERE, 'properties.jsonl'))]
    checks = []
    na = []
    for p in props:
        pid = p['id']
        if pid in CHECKS:
            eng, tech, text, note, ref = CHECKS[pid]
            checks.append({
                'property_id': pid,
                'quick_cmd': f'./run.sh {pid} quick',
                'thorough_cmd': f'./run.sh {pid} thorough',
                'evidence_file': f'/verif/evidence/{pid}.json',
                'replay_cmd_template': './run.sh replay {path}',
                'engine': eng,
                'level_claimed': {'category': 'model_checking', 'text': text, 'design_ref': 'DESIGN.md section ' + ref},
                'level_note': note,
                'technique': tech,
            })
        else:
            na.append({'property_id': pid, 'reason': NOT_YET.get(pid, 'check not built yet in this revision of /verif (planned, see DESIGN.md section 5); not claimed until its engine exists')})
    m = {
        'version': 1,
        'setup_cmd': './setup.sh',
        'hooks': {
            'guard': 'verif',
            'enable': 'no guarded source exists in /repo: all observation is through the exported API; the only instrumentation (C14) is a go build -overlay generated at check time from the working tree (sync import of the four packages redirected to mc/shim/vsync.go.src; harness built with -tags verifsched)',
            'baseline_off_cmd': BASELINE,
            'source_commits': [],
            'add_only': True,
        },
        'engines': ENGINES,
        'checks': checks,
        'notes': 'All checks rebuild the harness (module /verif/mc, replace => /repo) from /repo\'s working tree on every invocation. Genuine defects repaired in /repo: see KNOWN_FINDINGS.txt (fixed: lines).',
        'not_applicable': na,
    }
    out = os.path.join(HERE, 'MANIFEST.json')
    json.dump(m, open(out, 'w'), indent=1)
    try:
        import jsonschema
        jsonschema.validate(m, json.load(open('/root/.vp/MANIFEST.schema.json')))
        print('MANIFEST.json valid;', len(checks), 'checks,', len(na), 'not claimed')
    except ImportError:
        print('jsonschema not available; written without validation')

ENGINES = [
 {'name': 'objspace', 'path': 'mc/engine/objspace.go', 'serves_properties': ['C02', 'C07', 'C09', 'C16'], 'kind_free_text': 'explicit-state exploration of the packed objects as a transition system (states = metric assignments, transitions = Set/ParseVector), on the implementation, array model as oracle'},
 {'name': 'strspace', 'path': 'mc/engine/strspace.go', 'serves_properties': ['C01', 'C06', 'C08', 'C13', 'C18'], 'kind_free_text': 'the four parsers as state machines: bounded-exhaustive enumeration of strings (edit neighbourhoods of seeds, language enumerations, header matrix) judged by a reference grammar / automaton'},
 {'name': 'sched', 'path': 'mc/schedcmd/main.go', 'serves_properties': ['C14'], 'kind_free_text': 'controlled scheduler + stateless DFS over schedules and sync.Pool answers on the real code (sync redirected by go build -overlay), history exploration, free-running -race side pass'},
 {'name': 'numspace', 'path': 'mc/engine/props_c15_c16.go', 'serves_properties': ['C15', 'C17'], 'kind_free_text': 'exhaustive float32 / ulp sweeps for Rating; exhaustive per-call allocation measurement in worker processes'},
 {'name': 'scorespace', 'path': 'mc/engine/score4.go', 'serves_properties': ['C03', 'C04', 'C05', 'C10', 'C11', 'C12'], 'kind_free_text': 'exhaustive enumeration of effective metric classes against exact (integer/rational) executable specifications; deviation-bounded lifting to representations'},
]
if __name__ == '__main__':
    main()
