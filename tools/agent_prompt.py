#!/usr/bin/env python3
import json,sys
pid=sys.argv[1]
for l in open('/verif/properties.jsonl'):
    p=json.loads(l)
    if p['id']==pid: break
wt=f"/tmp/seed-{pid}"
print(f"""You are helping to evaluate a verification harness by producing realistic seeded faults in the Go library pandatix/go-cvss (parses, serialises and scores CVSS v2.0/3.0/3.1/4.0 vectors; packages 20/, 30/, 31/, 40/).

Work ONLY inside your own scratch git worktree {wt} (already created, a worktree of the repository at its current HEAD) and write your deliverables to {wt}-out/. Never modify /repo itself, and do not read or touch /verif at all.

THE PROPERTY your change must break:
Title: {p['title']}
Statement: {p['statement']}
Quantifier: {p['quantifier']['text']}

TASK: make a change to the library's non-test source that BREAKS this property while it (a) still compiles and (b) still passes the existing test suite, unedited. The change must be realistic - the kind of slip a maintainer could make during a refactor, optimisation or copy-paste - and SUBTLE: it should need something specific to manifest (a particular metric/value combination, an unusual input, a multi-step sequence of calls, a particular goroutine interleaving, or two cooperating sites that each look fine alone), not something that ordinary use would expose at once. Do not edit or delete tests. Keep each change small (a few lines).

Please produce TWO independent changes of different nature if you can (each applied alone to a clean tree). For each k in 1,2 deliver in {wt}-out/:
  patch<k>.diff      - `git diff` of the change, taken from the worktree root (must apply with `git apply` on a clean tree)
  demo<k>_test.go    - a Go test file (state in its first comment line which package directory it belongs in, e.g. `// dir: 40`) that FAILS with the change and PASSES without it
  notes<k>.md        - what the change breaks, what is needed for it to manifest, and the exact commands you ran with their outcome (existing tests pass with the change; demo fails with the change and passes without)

How to run the existing tests (no network is available; never use `go get`):
  cd {wt} && env GOFLAGS= GOPROXY=off GOSUMDB=off GOTOOLCHAIN=local go test -vet=off -count=1 ./20/... ./30/... ./31/... ./40/...
  cd {wt}/differential && env GOFLAGS= GOPROXY=off GOSUMDB=off GOTOOLCHAIN=local go test -vet=off -count=1 ./...
In the differential module some tests already fail at baseline (FuzzDifferential_V2_Attwad, _V2_Claircore, _V2_Facebookincubator, _V2_Umisama, _V3_Bunji2 and some of their seeds): only tests that pass on the clean tree matter, so compare the list of passing tests before and after your change (use `go test -json` or `-v`); every test that passed before must still pass.
The repository is a go.work workspace; running go inside your worktree may rewrite go.work.sum there - that is fine, just do not include go.work.sum in your patches. Use `git stash` / `git checkout -- .` inside your worktree to switch between the clean and the changed tree. At the end leave the worktree clean (`git checkout -- . && git clean -fdq`), and reply with a short summary of the two changes (one paragraph each).""")
