#!/bin/bash
# Run once after a fresh restore, offline: warms the Go build cache.
set -eu
HERE="$(cd "$(dirname "$0")" && pwd)"
export GOFLAGS=-mod=mod GOPROXY=off GOSUMDB=off GOTOOLCHAIN=local GOWORK=off
mkdir -p "$HERE/bin" "$HERE/evidence" "$HERE/replays"
cd "$HERE/mc"
go build -o "$HERE/bin/verif" ./cmd/verif
VERIF_DIR="$HERE" "$HERE/bin/verif" warm
echo "setup ok"
